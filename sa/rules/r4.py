"""Rules added after the fourth round of seeded defects (DESIGN.md 3.9): IX16 (non-None data-flow
for optional tokens), EXW, UM1, SC8, SB2b, UKR, EN1, SH1, SH2, NM1, ACC1, CK8."""
import ast

from ..model import AnalysisError, unparse, iter_scope
from ..report import RuleResult
from ..flow import Flow, always_exits
from .. import guards
from .. import tables
from .. import tok as T

OPT = {'cur', 'next', 'skip_space', 'look_ahead'}


def _anc(n, stop=None):
    p = getattr(n, '_parent', None)
    while p is not None and p is not stop:
        yield p
        p = getattr(p, '_parent', None)


def _stmt_of(n):
    while n is not None and not isinstance(n, ast.stmt):
        n = getattr(n, '_parent', None)
    return n


# ----------------------------------------------------------------------------- IX16
def _is_opt_call(v):
    return isinstance(v, ast.Call) and isinstance(v.func, ast.Attribute) and v.func.attr in OPT


class NonNull(Flow):
    """which local names (and which `buf.cur()`-style call texts) are known not to be None"""
    def __init__(self, model):
        super().__init__()
        self.model = model

    def copy(self, st):
        return set(st)

    def join(self, a, b):
        return a & b

    def equal(self, a, b):
        return a == b

    def _nonnull(self, v, st):
        if isinstance(v, ast.Name):
            return v.id in st
        if _is_opt_call(v):
            return unparse(v) in st
        if isinstance(v, ast.Constant):
            return v.value is not None
        if isinstance(v, (ast.IfExp, ast.BoolOp)):
            return False
        if isinstance(v, ast.Call):
            rc = self.model.resolve_call(v)
            if rc and rc[0] == 'class':
                return True
            if rc and rc[0] == 'ext' and rc[1] in ('copy.copy', 'copy.deepcopy') and v.args:
                return self._nonnull(v.args[0], st)
            return False
        return isinstance(v, (ast.List, ast.Tuple, ast.Dict, ast.JoinedStr, ast.ListComp))

    def _kill_calls(self, node, st):
        """a call on a buffer may move it: facts about `buf.cur()` of that buffer are dropped"""
        for c in ast.walk(node):
            if isinstance(c, ast.Call) and isinstance(c.func, ast.Attribute) and c.func.attr not in ('cur', 'look_ahead'):
                recv = unparse(c.func.value)
                for k in [k for k in st if k.startswith(recv + '.')]:
                    st.discard(k)
                # the buffer may also be passed on
            if isinstance(c, ast.Call):
                for a in c.args:
                    if isinstance(a, ast.Name):
                        for k in [k for k in st if k.startswith(a.id + '.')]:
                            st.discard(k)

    def transfer(self, s, st):
        self._kill_calls(s, st)
        if isinstance(s, ast.Assign):
            nn = self._nonnull(s.value, st)
            for t in s.targets:
                for x in ast.walk(t):
                    if isinstance(x, ast.Name) and isinstance(x.ctx, ast.Store):
                        st.discard(x.id)
                        for k in [k for k in st if k.startswith(x.id + '.')]:
                            st.discard(k)
                if isinstance(t, ast.Name) and nn:
                    st.add(t.id)
        elif isinstance(s, (ast.AugAssign, ast.AnnAssign)):
            t = s.target
            if isinstance(t, ast.Name):
                st.discard(t.id)
        return st

    def cond(self, test, st, branch):
        facts = []
        guards.split_fact(test, branch, facts)
        self._kill_calls(test, st)
        for e, t in facts:
            if t and isinstance(e, ast.Name):
                st.add(e.id)
            elif t and _is_opt_call(e) and e.func.attr in ('cur', 'look_ahead'):
                st.add(unparse(e))
            elif isinstance(e, ast.Compare) and len(e.ops) == 1:
                l, op, rgt = e.left, e.ops[0], e.comparators[0]
                if isinstance(l, ast.Call) and getattr(l.func, 'id', '') == 'type' and l.args \
                        and isinstance(l.args[0], ast.Name) and isinstance(op, (ast.Is, ast.Eq)) == t \
                        and isinstance(op, (ast.Is, ast.Eq, ast.IsNot, ast.NotEq)) and not T.is_const(rgt, None):
                    st.add(l.args[0].id)
                if isinstance(l, ast.Name) and isinstance(rgt, ast.Constant) and rgt.value is None \
                        and isinstance(op, (ast.IsNot, ast.NotEq)) == t and isinstance(op, (ast.Is, ast.IsNot, ast.Eq, ast.NotEq)):
                    st.add(l.id)
            elif t and isinstance(e, ast.Call) and getattr(e.func, 'id', '') == 'isinstance' and e.args \
                    and isinstance(e.args[0], ast.Name):
                st.add(e.args[0].id)
        return st

    def bind_for(self, node, st):
        for x in ast.walk(node.target):
            if isinstance(x, ast.Name):
                st.add(x.id)
        return st

    def bind_except(self, h, st):
        return st

    def nested_def(self, node, st):
        return st


def ix16(model):
    r = RuleResult('IX16', 'Buffer.cur() / next() / skip_space() / look_ahead() return None at the end '
                   'of the buffer: their result is dereferenced (.txt, .pos, ...) only where a '
                   'non-None data-flow analysis or a dominating test shows that a token is there',
                   floor=30)
    for f in model.all_funcs():
        if isinstance(f.node, ast.Lambda) or not isinstance(f.node.body, list):
            continue
        cands = []
        for n in iter_scope(f.node):
            if not (isinstance(n, ast.Attribute) and isinstance(n.ctx, ast.Load)):
                continue
            v = n.value
            if _is_opt_call(v):
                cands.append((n, 'call', unparse(v)))
            elif isinstance(v, ast.Name):
                vals = T.resolve_local(model, v)
                if vals and any(_is_opt_call(x) for x in vals):
                    cands.append((n, 'name', v.id))
        if not cands:
            continue
        nn = NonNull(model)
        try:
            nn.run(f.node.body, set())
        except AnalysisError:
            nn = None
        for n, kind, key in cands:
            if kind == 'call':
                ok = guards.has_fact(n, lambda e, t: t and unparse(e) == key)
            else:
                ok = guards.has_fact(n, lambda e, t: (t and isinstance(e, ast.Name) and e.id == key)
                                     or (isinstance(e, ast.Compare) and isinstance(e.left, ast.Call)
                                         and getattr(e.left.func, 'id', '') == 'type' and e.left.args
                                         and unparse(e.left.args[0]) == key
                                         and isinstance(e.ops[0], (ast.Is, ast.Eq)) == t))
            how = 'dominating test'
            if not ok and nn is not None:
                st = nn.pre.get(id(_stmt_of(n)))
                if st is not None and key in st:
                    ok, how = True, 'non-None on every path to this statement'
                elif st is None and _stmt_of(n) is not None and id(_stmt_of(n)) not in nn.pre:
                    ok, how = True, 'unreachable statement'
            if ok:
                r.ok(n, '%s is a token here (%s)' % (key, how), nontrivial=True, sample=False)
            else:
                r.fail(n, '%s may be None (end of the buffer) where %s is evaluated: AttributeError'
                       % (key, unparse(n)),
                       witness='a text that ends directly behind this construct (macro as the last '
                               'token of the document or of an argument)')
    return r


# ----------------------------------------------------------------------------- EXW
def exw(model):
    r = RuleResult('EXW', 'the list of extracted flows (footnotes, captions) is only appended to '
                   'while a text is expanded; it is replaced by a fresh list only in Parser.parse '
                   'and around the nested parse of \\LTinput (save, fresh list, restore the saved '
                   'list); a flow is expanded when it is recorded and recorded whenever the macro '
                   'has an extraction template', floor=4)
    allowed = {'parser.Parser.parse', 'parser.Parser.__init__', 'handlers.h_load_defs'}
    for f in model.all_funcs():
        if isinstance(f.node, ast.Lambda):
            continue
        for n0 in iter_scope(f.node):
          for n in (T.explode_assigns([n0]) if isinstance(n0, ast.Assign) else [n0]):
            if isinstance(n, ast.Assign):
                for t in n.targets:
                    if isinstance(t, ast.Attribute) and t.attr == 'extracted':
                        v = n.value
                        fresh = (isinstance(v, ast.List) and not v.elts) or (
                            isinstance(v, ast.Call) and getattr(v.func, 'id', '') == 'list' and not v.args)
                        saved = False
                        if isinstance(v, ast.Name):
                            vals = T.resolve_local(model, v)
                            saved = bool(vals) and all(isinstance(x, ast.Attribute) and x.attr == 'extracted' for x in vals)
                            if not saved:
                                # saved by a parallel assignment: old, p.extracted = p.extracted, []
                                defs_ = [a for s0 in iter_scope(f.node) if isinstance(s0, ast.Assign)
                                         for a in T.explode_assigns([s0])
                                         if isinstance(a.targets[0], ast.Name) and a.targets[0].id == v.id]
                                saved = bool(defs_) and all(isinstance(a.value, ast.Attribute) and a.value.attr == 'extracted'
                                                           for a in defs_)
                        if f.qname in allowed and (fresh or saved):
                            r.ok(n, '%s: %s' % (f.name, 'fresh list' if fresh else 'saved list restored'), nontrivial=saved)
                        else:
                            r.fail(n, 'the list of extracted flows is replaced in %s by %s: an enclosing '
                                   'expansion still holds the old list, the flow it is about to '
                                   'record (or the flows recorded so far) are lost'
                                   % (f.name, unparse(v)[:40]),
                                   witness='a \\footnote that contains a removed environment / a footnote before \\LTinput')
            if isinstance(n, ast.Call) and isinstance(n.func, ast.Attribute) and isinstance(n.func.value, ast.Attribute) \
                    and n.func.value.attr == 'extracted':
                if n.func.attr == 'append':
                    if f.qname == 'parser.Parser.expand_arguments':
                        v = n.args[0] if n.args else None
                        if isinstance(v, ast.Call) and T.call_name(v) == 'expand_sequence':
                            r.ok(n, 'the flow is expanded when it is recorded', nontrivial=True)
                        else:
                            r.fail(n, 'the flow is recorded as %s, not as the result of expand_sequence: '
                                   'it is expanded later, with the definitions and the order of that '
                                   'later point' % (unparse(v)[:40] if v is not None else '?'),
                                   witness='an unknown macro inside a \\footnote, followed by its definition')
                        extra = [e for e, t in guards.facts(n)
                                 if not (isinstance(e, ast.Attribute) and e.attr == 'extract')]
                        if extra:
                            r.fail(n, 'a flow is recorded only under the extra condition %s'
                                   % unparse(extra[0])[:50],
                                   witness='\\begin{equation}\\input{eq1}\\end{equation} with --extr \\input')
                    else:
                        r.ok(n, 'append', sample=False)
                else:
                    r.fail(n, 'the list of extracted flows is modified by .%s() in %s: the list object is '
                           'shared with the saved reference / the enclosing expansion' % (n.func.attr, f.name),
                           witness='a footnote before \\LTinput')
    return r


# ----------------------------------------------------------------------------- UM1 / UKR
def um1(model):
    r = RuleResult('UM1', 'an unknown macro vanishes alone: the branch of expand_macro for an '
                   'undeclared name reads nothing more from the buffer (what follows, [..] or '
                   '{..}, is ordinary text); the list of unknown names is consulted only by the '
                   'duplicate test around its own append', floor=2)
    f = model.func('parser.Parser.expand_macro')
    br = None
    for n in iter_scope(f.node):
        if isinstance(n, ast.If) and isinstance(n.test, ast.Compare) and isinstance(n.test.ops[0], ast.NotIn) \
                and unparse(n.test.comparators[0]).endswith('the_macros'):
            br = n
    if br is None:
        r.undec(f.node, 'branch for undeclared macros not recognised')
        r.instances = 2
        return r
    bufname = f.params[1] if len(f.params) > 1 else 'buf'
    reads = [c for s in br.body for c in ast.walk(s) if isinstance(c, ast.Call) and (
        (isinstance(c.func, ast.Attribute) and unparse(c.func.value) == bufname)
        or any(isinstance(a, ast.Name) and a.id == bufname for a in c.args))]
    if reads:
        r.fail(reads[0], 'after an undeclared macro the parser reads on with %s: text that follows '
               'the macro is swallowed' % unparse(reads[0])[:40],
               witness='\\ldots [sic] / \\noindent [Remark]')
    else:
        r.ok(br, 'the branch for undeclared macros does not touch the buffer', nontrivial=True)
    # reads of .unknowns
    for g in model.cls('parser.Parser').methods.values():
        for n in iter_scope(g.node):
            if isinstance(n, ast.Attribute) and n.attr == 'unknowns' and isinstance(n.ctx, ast.Load):
                p = n._parent
                if isinstance(p, ast.Attribute) and p.attr == 'append':
                    continue
                if isinstance(p, ast.Return):
                    r.ok(n, 'returned by the accessor', sample=False)
                    continue
                # inside a test: the If must contain the append
                iff = next((a for a in _anc(n, g.node) if isinstance(a, ast.If)), None)
                in_test = iff is not None and any(x is n for x in ast.walk(iff.test))
                if in_test and any(isinstance(c, ast.Call) and T.call_name(c) == 'append'
                                   and unparse(c.func.value).endswith('unknowns') for s in iff.body for c in ast.walk(s)):
                    r.ok(n, 'duplicate test of the recording', nontrivial=True)
                else:
                    r.fail(n, 'the list of unknown names decides something else than its own '
                           'recording (%s): a name that was unknown once stays unknown after its '
                           'definition' % unparse(_stmt_of(n))[:60].split('\n')[0],
                           witness='\\x \\newcommand{\\x}{A} \\x')
    return r


# ----------------------------------------------------------------------------- SC8
def sc8(model):
    r = RuleResult('SC8', 'a parameter reference is # and ONE digit (TeX): the number of an '
                   'ArgumentToken is converted from a single character, not from a run of digits',
                   floor=1)
    f = model.func('scanner.Scanner.scan_arg_token')
    ints = [n for n in iter_scope(f.node) if isinstance(n, ast.Call) and getattr(n.func, 'id', '') == 'int' and n.args]
    if not ints:
        r.undec(f.node, 'no int() conversion in scan_arg_token')
        r.instances = 1
    for c in ints:
        a = c.args[0]
        vals = T.resolve_local(model, a) if isinstance(a, ast.Name) else [a]
        if vals and all(isinstance(v, ast.Subscript) and not isinstance(v.slice, ast.Slice) for v in vals):
            r.ok(c, 'one character is converted', nontrivial=True)
        elif vals and all(isinstance(v, ast.Subscript) and isinstance(v.slice, ast.Slice) for v in vals):
            sl = vals[0].slice
            one = sl.lower is not None and sl.upper is not None and (
                unparse(sl.upper).replace(' ', '') in (unparse(sl.lower).replace(' ', '') + '+1', '1+' + unparse(sl.lower).replace(' ', '')))
            if one:
                r.ok(c, 'a slice of one character is converted', nontrivial=True)
            else:
                r.fail(c, 'the parameter number is converted from the slice %s: #12 is read as '
                       'parameter 12 instead of #1 followed by the digit 2' % unparse(vals[0]),
                       witness='\\newcommand{\\x}[1]{#12}')
        else:
            r.undec(c, 'source of the converted text not recognised')
    return r


# ----------------------------------------------------------------------------- SB2b
def sb2b(model):
    r = RuleResult('SB2b', 'optional argument: it is read from [..] iff the next token is [; in every '
                   'other case - also at the end of the buffer - the default of the definition is '
                   'used if there is one (decision table over: token absent / [ / other, default '
                   'present or not)', floor=4)
    f = model.func('parser.Parser.expand_arguments')
    br = None
    for n in iter_scope(f.node):
        if isinstance(n, ast.If):
            t = n.test
            if isinstance(t, ast.Compare) and isinstance(t.left, ast.Name) and T.is_const(t.comparators[0], 'O') \
                    and isinstance(t.ops[0], ast.Eq):
                br = n
    if br is None:
        r.undec(f.node, "branch for the argument code 'O' not recognised")
        r.instances = 4
        return r
    # the token variable: result of skip_space in the loop
    tokv = None
    for n in iter_scope(f.node):
        if isinstance(n, ast.Assign) and isinstance(n.value, ast.Call) and T.call_name(n.value) == 'skip_space' \
                and isinstance(n.targets[0], ast.Name):
            tokv = n.targets[0].id
    if tokv is None:
        # the token whose text is compared with '[' inside the branch
        for n in ast.walk(br):
            if isinstance(n, ast.Compare) and len(n.ops) == 1 and T.is_const(n.comparators[0], '[') \
                    and isinstance(n.left, ast.Attribute) and n.left.attr == 'txt' and isinstance(n.left.value, ast.Name):
                tokv = n.left.value.id
    if tokv is None:
        r.undec(br, 'token variable not recognised')
        r.instances = 4
        return r

    class Stop(Exception):
        pass

    def ev(e, env):
        if isinstance(e, ast.Name) and e.id == tokv:
            return env['tok'] is not None
        if isinstance(e, ast.UnaryOp) and isinstance(e.op, ast.Not):
            return not ev(e.operand, env)
        if isinstance(e, ast.BoolOp):
            if isinstance(e.op, ast.And):
                for x in e.values:
                    if not ev(x, env):
                        return False
                return True
            for x in e.values:
                if ev(x, env):
                    return True
            return False
        if isinstance(e, ast.Compare) and len(e.ops) == 1:
            l, op, rg = e.left, e.ops[0], e.comparators[0]
            if unparse(l) == tokv + '.txt' and isinstance(rg, ast.Constant):
                if env['tok'] is None:
                    raise Stop('%s.txt with %s None' % (tokv, tokv))
                res = env['tok'] == rg.value
                return res if isinstance(op, ast.Eq) else (not res if isinstance(op, ast.NotEq) else None)
            if isinstance(l, ast.Name) and l.id == tokv and T.is_const(rg, None):
                res = env['tok'] is None
                return res if isinstance(op, (ast.Is, ast.Eq)) else not res
            if 'defaults' in unparse(e):
                return env['dflt']
        if 'defaults' in unparse(e):
            return env['dflt']
        raise Stop(unparse(e))

    def run(stmts, env):
        act = None
        for s in stmts:
            if isinstance(s, ast.If):
                a = run(s.body if ev(s.test, env) else s.orelse, env)
                act = a or act
            elif isinstance(s, ast.Assign):
                v = s.value
                if any(isinstance(c, ast.Call) and T.call_name(c) == 'arg_buffer' for c in ast.walk(v)):
                    act = 'READ'
                elif 'defaults' in unparse(v):
                    act = 'DEFAULT'
            elif isinstance(s, ast.For) and 'defaults' in unparse(s.iter) and any(
                    isinstance(c, ast.Call) and T.call_name(c) in ('append', 'extend') for c in ast.walk(s)):
                act = 'DEFAULT'         # the default tokens are copied one by one into the argument
            elif isinstance(s, ast.Expr) and any(isinstance(c, ast.Call) and T.call_name(c) == 'arg_buffer'
                                                 for c in ast.walk(s)):
                act = 'READ'
        return act

    for tok in (None, '[', 'x'):
        for dflt in (True, False):
            want = 'READ' if tok == '[' else ('DEFAULT' if dflt else None)
            label = 'next token %s, default %s' % ({None: 'absent', '[': '[', 'x': 'other'}[tok], 'present' if dflt else 'absent')
            try:
                got = run(br.body, {'tok': tok, 'dflt': dflt})
            except Stop as e:
                r.undec(br, 'optional-argument branch not interpreted for %s: %s' % (label, e))
                r.instances += 1
                continue
            if got == want:
                r.ok(br, '%s -> %s' % (label, want or 'empty'), nontrivial=True, sample=False)
            else:
                r.fail(br, 'optional argument, %s: the argument is %s, expected %s' % (
                    label, got or 'left empty', want or 'empty'),
                    stmt='optional argument: ' + label,
                    witness='\\newcommand{\\x}[1][nobody]{<#1>} ... \\x as the last token of the text / of a footnote')
    return r


# ----------------------------------------------------------------------------- EN1
def en1(model):
    r = RuleResult('EN1', 'command-line filter: every input file (LaTeX text, --defs, --repl, '
                   '\\LTinput) is read with the encoding of --ienc; no reader falls back to a '
                   'built-in encoding', floor=3)
    m = model.mod('tex2txt')
    for f in m.funcs.values() if hasattr(m, 'funcs') else []:
        pass
    main = model.func('tex2txt.main')
    readers = {}
    for q in ('tex2txt.read_definitions', 'tex2txt.read_replacements'):
        if model.has_func(q):
            readers[q.split('.')[-1]] = model.func(q)
    for name, fn in readers.items():
        node = fn.node
        args = node.args
        n_def = len(args.defaults)
        names = [a.arg for a in args.args]
        if 'encoding' in names:
            k = names.index('encoding')
            has_default = k >= len(names) - n_def
            if has_default:
                r.fail(node, '%s has a default encoding: a caller that forgets the argument reads '
                       'the file with it instead of --ienc' % name, stmt='default encoding of ' + name,
                       witness='--ienc latin-1 with a non-ASCII character in the definitions file')
            else:
                r.ok(node, '%s requires the encoding' % name, nontrivial=True)
    for n in iter_scope(main.node):
        if isinstance(n, ast.Call) and T.call_name(n) in readers:
            enc = [k.value for k in n.keywords if k.arg == 'encoding'] + list(n.args[1:2])
            if enc and unparse(enc[0]).endswith('.ienc'):
                r.ok(n, '%s reads with --ienc' % T.call_name(n), nontrivial=True)
            else:
                r.fail(n, '%s is called without the encoding of --ienc' % T.call_name(n),
                       witness='--ienc latin-1 with a non-ASCII character in the file')
    return r


# ----------------------------------------------------------------------------- SH1 / SH2
def sh1(model):
    r = RuleResult('SH1', 'shell: a function that receives a setting as parameter uses the '
                   'parameter, not the global option of the same name (server requests carry their '
                   'own language / rules); every tex2txt.Options(...) built by the shell passes '
                   'the definitions file, packages and document class of the command line',
                   floor=3)
    # the per-request settings are the parameters of the function every request goes through
    rpo = model.func('shell.proofreader.run_proofreader_options')
    request_settings = set(rpo.params[1:])
    for f in model.all_funcs():
        if isinstance(f.node, ast.Lambda) or not f.mod.short.startswith('shell'):
            continue
        params = set(f.params) & request_settings
        for n in iter_scope(f.node):
            if isinstance(n, ast.Attribute) and isinstance(n.value, ast.Name) and n.value.id == 'cmdline' \
                    and n.attr in params and isinstance(n.ctx, ast.Load):
                r.fail(n, '%s has the parameter %s but reads the global option cmdline.%s: a request '
                       'with another %s is processed with the setting of the command line'
                       % (f.name, n.attr, n.attr, n.attr),
                       witness='--as-server with a request in another language than --language')
        if params:
            r.instances += 1
    want = {'defs': 'define', 'pack': 'packages', 'dcls': 'documentclass', 'ienc': 'encoding'}
    for m in model.mods.values():
        if not m.short.startswith('shell'):
            continue
        for n in ast.walk(m.tree):
            if isinstance(n, ast.Call) and T.call_name(n) == 'Options' and isinstance(n.func, ast.Attribute):
                kw = {k.arg: k.value for k in n.keywords}
                def carries(e, opt, depth=2):
                    if any(isinstance(x, ast.Attribute) and x.attr == opt and unparse(x.value) == 'cmdline'
                           for x in ast.walk(e)):
                        return True
                    if depth:
                        for x in ast.walk(e):
                            if isinstance(x, ast.Name) and isinstance(x.ctx, ast.Load):
                                for v in T.resolve_local(model, x):
                                    if v is not x and carries(v, opt, depth - 1):
                                        return True
                    return False
                miss = [k for k, opt in want.items() if not (k in kw and carries(kw[k], opt))]
                if miss:
                    r.fail(n, 'this tex2txt.Options(...) does not pass %s of the command line: macros '
                           'and packages declared there are unknown in this mode (ienc: files read by \\LTinput '
                           'are decoded as UTF-8 instead of --encoding)'
                           % ', '.join('%s=cmdline.%s' % (k, want[k]) for k in miss),
                           witness='--list-unknown together with --define')
                else:
                    r.ok(n, 'Options(...) carries --define, --packages, --documentclass', nontrivial=True)
    return r


# ----------------------------------------------------------------------------- NM1
def nm1(model):
    r = RuleResult('NM1', 'macros are dispatched by their exact name: the parsers compare the text '
                   'of a macro token with == / in, never with startswith / endswith / a regular '
                   'expression (\\textstyle is not \\text, \\mboxed is not \\mbox)', floor=5)
    for q in ('mathparser', 'parser'):
        m = model.mod(q)
        for n in ast.walk(m.tree):
            if isinstance(n, ast.Call) and isinstance(n.func, ast.Attribute) and n.func.attr in ('startswith', 'endswith') \
                    and unparse(n.func.value).endswith('.txt'):
                fn = next((a for a in _anc(n) if isinstance(a, ast.FunctionDef)), None)
                if fn is not None and fn.name in ('expand_math_section', 'expand_sequence', 'expand_macro',
                                                  'expand_display_math', 'expand_inline_math', 'begin_environment'):
                    r.fail(n, 'a macro token is dispatched by the prefix test %s: every macro whose '
                           'name begins like a text macro is handled like it' % unparse(n)[:50],
                           witness='$a = \\textstyle b$, $\\textcolor{red}{b}$')
            if isinstance(n, ast.Compare) and isinstance(n.ops[0], (ast.In, ast.NotIn, ast.Eq, ast.NotEq)) \
                    and unparse(n.left).endswith('.txt'):
                r.instances += 1
    return r


# ----------------------------------------------------------------------------- ACC1
def acc1(model):
    r = RuleResult('ACC1', 'a result list that is filled in a loop is extended there, not '
                   're-assigned: `out = f(x)` inside the loop keeps the contribution of the last '
                   'element only', floor=5)
    for f in model.all_funcs():
        if isinstance(f.node, ast.Lambda) or not isinstance(f.node.body, list):
            continue
        ret_names = {x.id for rv in T.func_returns(f) if rv is not None for x in ast.walk(rv)
                     if isinstance(x, ast.Name)}
        inits = {}
        for s in iter_scope(f.node):
            if isinstance(s, ast.Assign) and len(s.targets) == 1 and isinstance(s.targets[0], ast.Name) \
                    and isinstance(s.value, ast.List) and not s.value.elts:
                inits.setdefault(s.targets[0].id, []).append(s)
        for name, ini in inits.items():
            if name not in ret_names:
                continue
            for lp in iter_scope(f.node):
                if not isinstance(lp, (ast.For, ast.While)):
                    continue
                if not any(i.lineno < lp.lineno and lp not in list(_anc(i)) for i in ini):
                    continue
                for s in ast.walk(lp):
                    if isinstance(s, ast.Assign) and any(isinstance(t, ast.Name) and t.id == name for t in s.targets) \
                            and s not in ini and not any(isinstance(x, ast.Name) and x.id == name for x in ast.walk(s.value)):
                        # a reset at the top of an outer iteration is fine if the list was flushed
                        if isinstance(s.value, ast.List) and not s.value.elts:
                            continue
                        # used only in this iteration?
                        later = [x for x in ast.walk(lp) if isinstance(x, ast.Name) and x.id == name
                                 and isinstance(x.ctx, ast.Load) and x.lineno > s.lineno]
                        aug = [x for x in ast.walk(lp) if (isinstance(x, ast.AugAssign) and isinstance(x.target, ast.Name)
                                                           and x.target.id == name)
                               or (isinstance(x, ast.Call) and T.call_name(x) in ('append', 'extend')
                                   and isinstance(x.func.value, ast.Name) and x.func.value.id == name)]
                        if aug or later:
                            r.ok(s, 'per-iteration value', sample=False)
                            continue
                        r.fail(s, 'the result list %s is initialised before the loop and re-assigned '
                               'inside it (%s): only the last iteration contributes to the result'
                               % (name, unparse(s)[:50]),
                               witness='\\usepackage[ngerman]{babel,amsmath}: the language switch of babel is lost')
                    elif isinstance(s, ast.AugAssign) and isinstance(s.target, ast.Name) and s.target.id == name:
                        r.ok(s, '%s is extended in the loop' % name, sample=False)
    r.instances = max(r.instances, 5)
    return r


# ----------------------------------------------------------------------------- CK8
def ck8(model):
    r = RuleResult('CK8', 'the accepted patterns of --single-letters are tried in the order the '
                   'user gave them (regex alternation takes the first alternative that matches): '
                   'the split list is not sorted or turned into a set', floor=1)
    f = model.func('shell.checks.create_single_letter_matches')
    splits = [n for n in iter_scope(f.node) if isinstance(n, ast.Call) and T.call_name(n) == 'split'
              and 'single_letters' in unparse(n.func.value)]
    if not splits:
        r.undec(f.node, 'split of the accepted patterns not recognised')
        r.instances = 1
    for sp in splits:
        wrap = [a for a in _anc(sp, f.node) if isinstance(a, ast.Call) and getattr(a.func, 'id', '') in ('sorted', 'set', 'frozenset')]
        if wrap:
            r.fail(wrap[-1], 'the accepted patterns are reordered by %s(): a short pattern can now stand '
                   'in front of a longer one that begins with it, and wins' % wrap[-1].func.id,
                   witness="--single-letters 'A.~D.|A' with the text 'A. D.'")
        else:
            r.ok(sp, 'order of the accepted patterns kept', nontrivial=True)
    return r


# ----------------------------------------------------------------------------- EM5
def em5(model):
    r = RuleResult('EM5', 'arg_buffer: once an opening { or [ has been consumed, the only silent '
                   'exit is the one that found the closing delimiter on level 0; every other exit '
                   'reports a LaTeX error (unclosed arguments are never dropped without a mark)',
                   floor=2)
    f = model.func('parser.Parser.arg_buffer')
    loops = [n for n in f.node.body if isinstance(n, ast.While)]
    if not loops:
        raise AnalysisError('anchor vanished: collecting loop of arg_buffer')
    lp = loops[0]
    endname = f.params[3] if len(f.params) > 3 else 'end'
    for n in ast.walk(lp):
        if not isinstance(n, ast.Return):
            continue
        def is_txt(x):
            if unparse(x).endswith('.txt'):
                return True
            if isinstance(x, ast.Name):
                vs = T.resolve_local(model, x)
                return bool(vs) and all(v is not x and unparse(v).endswith('.txt') for v in vs)
            return False
        found = any(isinstance(e, ast.Compare) and len(e.ops) == 1
                    and ((isinstance(e.ops[0], ast.Eq) and t) or (isinstance(e.ops[0], ast.NotEq) and not t))
                    and ((unparse(e.comparators[0]) == endname and is_txt(e.left))
                         or (unparse(e.left) == endname and is_txt(e.comparators[0])))
                    for e, t in guards.facts(n))
        blk = n._parent
        seq = next((getattr(blk, fld) for fld in ('body', 'orelse') if n in getattr(blk, fld, [])), [])
        err = any(isinstance(c, ast.Call) and T.call_name(c) == 'latex_error' for s in seq for c in ast.walk(s))
        if found:
            r.ok(n, 'exit after the closing delimiter', nontrivial=True)
        elif err:
            r.ok(n, 'exit with an error mark', nontrivial=True)
        else:
            r.fail(n, 'arg_buffer gives up inside an argument (%s) without reporting an error: an '
                   'unclosed %s leaves neither diagnostic nor mark'
                   % (', '.join(('' if t else 'not ') + unparse(e)[:40] for e, t in guards.facts(n)[:2]),
                      'optional argument'),
                   witness='\\section[ ... followed by a blank line')
    after = [s for s in f.node.body[f.node.body.index(lp) + 1:]]
    if any(isinstance(c, ast.Call) and T.call_name(c) == 'latex_error' for s in after for c in ast.walk(s)):
        r.ok(lp, 'end of text inside the argument reports an error', nontrivial=True)
    else:
        r.fail(lp, 'reaching the end of the text inside an argument no longer reports an error',
               stmt='error after the collecting loop', witness='\\textbf{abc')
    return r


# ----------------------------------------------------------------------------- CK10
def ck10(model):
    r = RuleResult('CK10', "the shell's own checks (single letters, equation punctuation) run for "
                   'every proofreader back end: they are called from run_proofreader_options, next '
                   'to the call of the back end, not from inside one back end and not under a '
                   'condition on the back end', floor=2)
    names = ('create_single_letter_matches', 'create_equation_punct_messages')
    for m in model.mods.values():
        if not m.short.startswith('shell'):
            continue
        for n in ast.walk(m.tree):
            if isinstance(n, ast.Call) and T.call_name(n) in names:
                fn = next((a for a in _anc(n) if isinstance(a, ast.FunctionDef)), None)
                if fn is None or fn.name != 'run_proofreader_options':
                    r.fail(n, '%s is called from %s: with another back end (--textgears, --server) '
                           'the check never runs' % (T.call_name(n), fn.name if fn else 'module level'),
                           witness='--textgears with --single-letters')
                    continue
                cond = [e for e, t in guards.facts(n) if any(
                    isinstance(x, ast.Attribute) and x.attr in ('textgears', 'server', 'lt_command', 'lt_directory')
                    for x in ast.walk(e))]
                if cond:
                    r.fail(n, '%s runs only under the back-end condition %s' % (T.call_name(n), unparse(cond[0])[:40]),
                           witness='--textgears with --single-letters')
                else:
                    r.ok(n, '%s on the common path' % T.call_name(n), nontrivial=True)
    return r


# ----------------------------------------------------------------------------- AB5
def ab5(model):
    r = RuleResult('AB5', 'arg_buffer never takes a paragraph break as a single-token argument: the '
                   'exit that consumes one token is dominated by the test for ParagraphToken (an '
                   'argument is not searched for beyond the end of the paragraph - for every '
                   'caller, not only expand_arguments)', floor=1)
    f = model.func('parser.Parser.arg_buffer')
    hit = False
    for n in iter_scope(f.node):
        if not (isinstance(n, ast.Return) and n.value is not None):
            continue
        lists = [x for x in ast.walk(n.value) if isinstance(x, ast.List) and len(x.elts) == 1
                 and isinstance(x.elts[0], ast.Name)]
        if not lists:
            continue
        v = lists[0].elts[0].id
        vals = T.resolve_local(model, lists[0].elts[0])
        if not (vals and all(_is_opt_call(x) for x in vals)):
            continue
        hit = True

        def excl(e, t):
            if isinstance(e, ast.Compare) and isinstance(e.left, ast.Call) and getattr(e.left.func, 'id', '') == 'type' \
                    and e.left.args and unparse(e.left.args[0]) == v and unparse(e.comparators[0]).endswith('ParagraphToken'):
                return isinstance(e.ops[0], (ast.Is, ast.Eq)) != t
            if isinstance(e, ast.Call) and getattr(e.func, 'id', '') == 'isinstance' and len(e.args) == 2 \
                    and unparse(e.args[0]) == v and unparse(e.args[1]).endswith('ParagraphToken'):
                return not t
            return False
        if guards.has_fact(n, excl):
            r.ok(n, 'the single-token exit excludes ParagraphToken', nontrivial=True)
        else:
            r.fail(n, 'arg_buffer returns the next token as a single-token argument without excluding '
                   'a paragraph break: an accent or \\text at the end of a paragraph swallows the '
                   'blank line', witness="...as \\'\\n\\nNext")
    if not hit:
        r.undec(f.node, 'single-token exit of arg_buffer not recognised')
        r.instances = 1
    return r


# ----------------------------------------------------------------------------- TJ4 / TJ5 / TH8
def _json_int_source(model, e, depth=3):
    """does the integer expression come, unclamped, from json_get(.., int) ?"""
    if isinstance(e, ast.Call) and T.call_name(e) == 'json_get' and len(e.args) == 3 \
            and getattr(e.args[2], 'id', '') == 'int':
        return e
    if isinstance(e, ast.Call) and getattr(e.func, 'id', '') in ('min',):
        return None                     # clamped from above
    if isinstance(e, ast.Call) and getattr(e.func, 'id', '') == 'max':
        # max(0, x) bounds from below only
        for a in e.args:
            s = _json_int_source(model, a, depth)
            if s is not None:
                return s
        return None
    if isinstance(e, ast.BinOp):
        return _json_int_source(model, e.left, depth) or _json_int_source(model, e.right, depth)
    if isinstance(e, ast.Name) and depth:
        for v in T.resolve_local(model, e):
            if v is not e:
                s = _json_int_source(model, v, depth - 1)
                if s is not None:
                    return s
        # a parameter: what the call sites pass
        fn = getattr(e, '_fn', None)
        if fn is not None and not isinstance(fn.node, ast.Lambda) and e.id in fn.params:
            from ..callgraph import callgraph
            k = fn.params.index(e.id)
            if fn.cls is not None and fn.outer is None:
                k -= 1
            for c in callgraph(model).callers.get(fn.qname, []):
                a = c.args[k] if 0 <= k < len(c.args) else next((kw.value for kw in c.keywords if kw.arg == e.id), None)
                if a is not None and not isinstance(a, ast.Starred):
                    s = _json_int_source(model, a, depth - 1)
                    if s is not None:
                        return s
    return None


def tj4(model):
    r = RuleResult('TJ4', 'a number taken from the proofreader answer is never used as a '
                   'repetition count (text * n) without an upper bound: the answer controls '
                   'the memory the report needs', floor=1)
    n_mul = 0
    for f in model.all_funcs():
        if isinstance(f.node, ast.Lambda) or not f.mod.short.startswith('shell'):
            continue
        for n in iter_scope(f.node):
            if isinstance(n, ast.BinOp) and isinstance(n.op, ast.Mult):
                for seq, cnt in ((n.left, n.right), (n.right, n.left)):
                    if isinstance(seq, (ast.Constant, ast.List)) and not (
                            isinstance(seq, ast.Constant) and not isinstance(seq.value, str)):
                        n_mul += 1
                        src = _json_int_source(model, cnt)
                        if src is not None:
                            r.fail(n, 'the repetition count %s comes from the answer (%s) without an '
                                   'upper bound: a huge value ends in MemoryError'
                                   % (unparse(cnt), unparse(src)[:40]),
                                   witness='context.length = 10**11 in an otherwise valid answer, --output plain')
                        else:
                            r.ok(n, 'repetition count is not an unbounded number of the answer',
                                 nontrivial=isinstance(cnt, ast.Name), sample=False)
    r.instances = max(r.instances, 1)
    return r


def tj5(model):
    r = RuleResult('TJ5', 'strings of the answer can contain anything JSON can express, also lone '
                   'surrogates (\\ud800), which no output stream can encode: json_get makes str '
                   'values encodable before they reach a report', floor=1)
    f = model.func('shell.shell.json_get') if model.has_func('shell.shell.json_get') else None
    if f is None:
        raise AnalysisError('anchor vanished: json_get')
    enc = [n for n in iter_scope(f.node) if isinstance(n, ast.Call) and T.call_name(n) == 'encode'
           and any(isinstance(a, ast.Constant) and a.value in ('replace', 'backslashreplace', 'ignore',
                                                               'xmlcharrefreplace', 'namereplace')
                   for a in list(n.args) + [k.value for k in n.keywords])]
    if enc:
        r.ok(enc[0], 'str values are re-encoded with an error handler', nontrivial=True)
    else:
        r.fail(f.node, 'json_get returns str values as decoded: a lone surrogate in a message, a '
               'replacement or the context ends in UnicodeEncodeError when the report is written',
               stmt='json_get returns str unchanged',
               witness='"message": "\\ud800" in an otherwise valid answer, --output plain / html / xml')
    return r


def th8(model):
    r = RuleResult('TH8', 'HTML report: text that goes into the title attribute of a highlight '
                   'contains no row separator "<br>\\n" (protect_html turns every line break of a '
                   'message into one, and add_line_numbers counts rows by it)', floor=1)
    f = model.func('shell.genhtml.begin_match')
    calls = [n for n in ast.walk(f.node) if isinstance(n, ast.Call) and T.call_name(n) == 'protect_html']
    if not calls:
        r.undec(f.node, 'no protect_html call in begin_match')
        r.instances = 2
        return r
    # a local wrapper that removes the separator again?
    def neutralised(c):
        p = c._parent
        # protect_html(x).replace('<br>\n', ..)
        if isinstance(p, ast.Attribute) and p.attr == 'replace' and isinstance(p._parent, ast.Call) \
                and p._parent.args and isinstance(p._parent.args[0], ast.Constant) and '<br>' in str(p._parent.args[0].value):
            return True
        # argument had its line breaks removed before
        a = c.args[0] if c.args else None
        for x in ast.walk(a) if a is not None else []:
            if isinstance(x, ast.Call) and T.call_name(x) in ('replace', 'sub') and any(
                    isinstance(y, ast.Constant) and y.value in ('\n', r'\n') for y in x.args):
                return True
        return False
    inner = {d.name: d for d in ast.walk(f.node) if isinstance(d, ast.FunctionDef) and d is not f.node}
    for n in ast.walk(f.node):
        if isinstance(n, ast.Call) and isinstance(n.func, ast.Name) and n.func.id in inner:
            pcs = [c for c in ast.walk(inner[n.func.id]) if isinstance(c, ast.Call) and T.call_name(c) == 'protect_html']
            if pcs and all(neutralised(c) for c in pcs):
                r.ok(n, 'escaped for the attribute by %s (row separators removed)' % n.func.id, nontrivial=True, sample=False)
    for c in calls:
        holder = next((a for a in _anc(c, f.node) if isinstance(a, ast.FunctionDef)), None)
        # does the text come from the answer?
        from_answer = any(isinstance(x, ast.Call) and T.call_name(x) == 'json_get' for x in ast.walk(c)) or any(
            isinstance(x, ast.Name) and any(isinstance(v, ast.Call) and (T.call_name(v) in ('json_get', 'join'))
                                            for v in T.resolve_local(model, x)) for x in ast.walk(c) if isinstance(x, ast.Name)) \
            or holder is not None
        if neutralised(c):
            r.ok(c, 'row separators are removed again inside the attribute', nontrivial=True)
        elif not from_answer:
            r.ok(c, 'text without line breaks of the answer', sample=False)
        else:
            r.fail(c, 'text of the answer goes through protect_html into the title attribute: a line '
                   'break in it becomes "<br>\\n", add_line_numbers sees an extra table row and '
                   'raises IndexError', witness='"message": "one\\ntwo" in an otherwise valid answer, --output html')
    return r


# ----------------------------------------------------------------------------- PD9
PD9_ALLOWED = {
    # function -> reason (each site was read; PD3 / PD4 decide that it is guarded and paired)
    'parser.Parser.expand_verb_env_token': 'end of an unpinned verbatim token (PD3 checks the pos_fix guard)',
    'parser.Parser.remove_pure_action_lines': 'trim / advance pair of a cut white-space token (PD4 checks the amount)',
}


def pd9(model):
    r = RuleResult('PD9', 'outside the scanner a position is never shifted by a length: parser, '
                   'handlers and package modules take positions from tokens or from the start '
                   'of the construct, unchanged (two enumerated trim/advance sites excepted)',
                   floor=2)
    posnames = {'start', 'pos', 'cur_pos', 'position'}
    for f in model.all_funcs():
        ms = f.mod.short
        if isinstance(f.node, ast.Lambda) or not (ms in ('parser', 'handlers', 'mathparser') or
                                                  ms.startswith('packages') or ms.startswith('documentclasses')):
            continue
        for n in iter_scope(f.node):
            shifted = None
            if isinstance(n, ast.BinOp) and isinstance(n.op, (ast.Add, ast.Sub)):
                for a, b in ((n.left, n.right), (n.right, n.left)):
                    if (isinstance(a, ast.Attribute) and a.attr == 'pos') or (isinstance(a, ast.Name) and a.id in posnames):
                        if any(isinstance(x, ast.Call) and getattr(x.func, 'id', '') == 'len' for x in ast.walk(b)):
                            shifted = (a, b)
            elif isinstance(n, ast.AugAssign) and isinstance(n.op, (ast.Add, ast.Sub)):
                a, b = n.target, n.value
                if (isinstance(a, ast.Attribute) and a.attr == 'pos') or (isinstance(a, ast.Name) and a.id in posnames):
                    if not isinstance(b, ast.Constant):
                        shifted = (a, b)
            if shifted is None:
                continue
            if f.qname in PD9_ALLOWED:
                r.ok(n, 'enumerated site: ' + PD9_ALLOWED[f.qname], nontrivial=True)
            else:
                r.fail(n, 'the position %s is shifted by the length %s: positions of generated tokens '
                       'then lie behind the construct they belong to, at the end of the text outside it'
                       % (unparse(shifted[0]), unparse(shifted[1])[:40]),
                       witness='a macro whose argument is absent as the very last token of the text')
    return r


# ----------------------------------------------------------------------------- NL1
def nl1(model):
    r = RuleResult('NL1', '\\\\ consumes nothing but its optional [..]: in parse_newline_option every '
                   'read from the buffer is guarded by the test that the next token is [',
                   floor=2)
    f = model.func('parser.Parser.parse_newline_option')
    bufname = f.params[1] if len(f.params) > 1 else 'buf'
    for n in iter_scope(f.node):
        if isinstance(n, ast.Call) and ((isinstance(n.func, ast.Attribute) and unparse(n.func.value) == bufname
                                         and n.func.attr in ('next', 'skip_space', 'back'))
                                        or T.call_name(n) == 'arg_buffer'):
            ok = guards.has_fact(n, lambda e, t: t and isinstance(e, ast.Compare) and isinstance(e.ops[0], ast.Eq)
                                 and T.is_const(e.comparators[0], '[') and unparse(e.left).endswith('.txt'))
            if ok:
                r.ok(n, '%s only if the next token is [' % unparse(n.func)[-12:], nontrivial=True)
            else:
                r.fail(n, 'parse_newline_option consumes tokens (%s) without knowing that the next '
                       'token is [: characters behind \\\\ vanish' % unparse(n)[:40],
                       witness='A\\\\*B  /  Notes:\\\\ followed by a line that starts with *')
    return r


# ----------------------------------------------------------------------------- RX6
def rx6(model):
    import re._parser as sre_parse
    import re._constants as sre_c
    r = RuleResult('RX6', 'a regular expression that looks at its left context (\\b, \\B, ^, '
                   'look-behind) - or whose text is not known - is never applied to a slice '
                   's[k:]: the slice hides the characters in front of k', floor=0)

    def context_sensitive(items):
        for op, av in items:
            if op is sre_c.AT and av in (sre_c.AT_BOUNDARY, sre_c.AT_NON_BOUNDARY, sre_c.AT_BEGINNING_LINE,
                                         sre_c.AT_UNI_BOUNDARY, sre_c.AT_UNI_NON_BOUNDARY):
                return True
            if op in (sre_c.ASSERT, sre_c.ASSERT_NOT) and av[0] < 0:
                return True
            if op in (sre_c.MAX_REPEAT, sre_c.MIN_REPEAT) and context_sensitive(list(av[2])):
                return True
            if op is sre_c.SUBPATTERN and context_sensitive(list(av[3])):
                return True
            if op is sre_c.BRANCH and any(context_sensitive(list(x)) for x in av[1]):
                return True
        return False
    for m in model.mods.values():
        for n in ast.walk(m.tree):
            if not (isinstance(n, ast.Call) and T.call_name(n) in ('search', 'match', 'finditer', 'fullmatch', 'findall', 'sub')):
                continue
            rc = model.resolve_call(n)
            if not (rc and rc[0] == 'ext' and rc[1].startswith('re.')):
                continue
            subj = n.args[2] if T.call_name(n) == 'sub' and len(n.args) > 2 else (n.args[1] if len(n.args) > 1 else None)
            if not (isinstance(subj, ast.Subscript) and isinstance(subj.slice, ast.Slice) and subj.slice.lower is not None
                    and not T.is_const(subj.slice.lower, 0)):
                continue
            pat = n.args[0]
            lits = [pat] if isinstance(pat, ast.Constant) else (
                T.resolve_local(model, pat) if isinstance(pat, ast.Name) else [pat])
            if lits and all(isinstance(v, ast.Constant) and isinstance(v.value, str) for v in lits):
                bad = False
                for v in lits:
                    try:
                        bad = bad or context_sensitive(list(sre_parse.parse(v.value)))
                    except Exception:
                        bad = True
                if bad:
                    r.fail(n, 'the pattern %r looks at its left context but is applied to the slice %s'
                           % (lits[0].value, unparse(subj)), witness='a match directly behind the slice point')
                else:
                    r.ok(n, 'context-free pattern on a slice', nontrivial=True)
            else:
                r.fail(n, 'the pattern %s is not a literal (it may begin with \\b) and is applied to the '
                       'slice %s: the word boundary is then always satisfied at the slice point'
                       % (unparse(pat)[:30], unparse(subj)),
                       witness="rule 'v2 & version 2' on the text 'v2v2'")
    return r


# ----------------------------------------------------------------------------- ML9
def _first_nonspace_loop(fnode, name):
    """name = 0, then `for i, c in enumerate(T): if not c.isspace(): name = i; break` (or the range(len(T))
    form): the spelled-out search for the first non-space character, default 0"""
    assigns = [a for a in ast.walk(fnode) if isinstance(a, ast.Assign)
               and any(isinstance(t, ast.Name) and t.id == name for t in a.targets)]
    others = [a for a in ast.walk(fnode) if isinstance(a, (ast.AugAssign, ast.For, ast.NamedExpr))
              and any(isinstance(m, ast.Name) and m.id == name for m in ast.walk(a.target))]
    # for-else form: `for name, c in enumerate(T): if not c.isspace(): break` / `else: name = 0`
    if len(others) == 1 and isinstance(others[0], ast.For) and len(assigns) == 1:
        lp, a = others[0], assigns[0]
        tgt = lp.target
        ivar = tgt.elts[0] if isinstance(tgt, ast.Tuple) and len(tgt.elts) == 2 else tgt
        is_enum = isinstance(lp.iter, ast.Call) and getattr(lp.iter.func, 'id', '') == 'enumerate' \
            and len(lp.iter.args) == 1 and not lp.iter.keywords and isinstance(tgt, ast.Tuple)
        is_rng = isinstance(lp.iter, ast.Call) and getattr(lp.iter.func, 'id', '') == 'range' and len(lp.iter.args) == 1 \
            and isinstance(tgt, ast.Name)
        if isinstance(ivar, ast.Name) and ivar.id == name and (is_enum or is_rng) and a in lp.orelse \
                and isinstance(a.value, ast.Constant) and a.value.value == 0 and len(lp.body) == 1 \
                and isinstance(lp.body[0], ast.If) and not lp.body[0].orelse and len(lp.body[0].body) == 1 \
                and isinstance(lp.body[0].body[0], ast.Break):
            fs = []
            guards.split_fact(lp.body[0].test, True, fs)
            return len(fs) == 1 and not fs[0][1] and isinstance(fs[0][0], ast.Call) \
                and isinstance(fs[0][0].func, ast.Attribute) and fs[0][0].func.attr == 'isspace'
        return False
    if others or len(assigns) != 2:
        return False
    dflt = [a for a in assigns if isinstance(a.value, ast.Constant) and a.value.value == 0]
    found = [a for a in assigns if a not in dflt]
    if len(dflt) != 1 or len(found) != 1 or not isinstance(found[0].value, ast.Name):
        return False
    a = found[0]
    lp = next((x for x in _anc(a) if isinstance(x, ast.For)), None)
    if lp is None or dflt[0].lineno > lp.lineno:
        return False
    ivar = None
    if isinstance(lp.target, ast.Tuple) and len(lp.target.elts) == 2 and isinstance(lp.iter, ast.Call) \
            and getattr(lp.iter.func, 'id', '') == 'enumerate' and len(lp.iter.args) == 1 and not lp.iter.keywords:
        ivar = lp.target.elts[0].id if isinstance(lp.target.elts[0], ast.Name) else None
    elif isinstance(lp.target, ast.Name) and isinstance(lp.iter, ast.Call) and getattr(lp.iter.func, 'id', '') == 'range' \
            and len(lp.iter.args) == 1:
        ivar = lp.target.id
    if ivar is None or a.value.id != ivar:
        return False
    st = _stmt_of(a)
    par = getattr(a, '_parent', None)
    if not (isinstance(par, ast.If) and par in lp.body and not par.orelse and a in par.body
            and isinstance(par.body[-1], ast.Break)):
        return False
    fs = []
    guards.split_fact(par.test, True, fs)
    return any(not t and isinstance(e, ast.Call) and isinstance(e.func, ast.Attribute) and e.func.attr == 'isspace'
               for e, t in fs) and len(fs) == 1


def ml9(model):
    r = RuleResult('ML9', 'the placeholder for a short foreign-language inclusion is mapped to the '
                   'first non-blank character of the inclusion (the index found by the search for a '
                   'non-space character), not to its first character', floor=1)
    f = model.func('utils.ml_append_placeholder')
    hit = False
    for n in iter_scope(f.node):
        if isinstance(n, ast.BinOp) and isinstance(n.op, ast.Mult) and isinstance(n.left, ast.List) \
                and len(n.left.elts) == 1 and isinstance(n.left.elts[0], ast.Subscript):
            sub = n.left.elts[0]
            if not unparse(sub.value).endswith('pos') and not (isinstance(sub.value, ast.Name) and any(
                    isinstance(v, ast.Attribute) and v.attr == 'pos' for v in T.resolve_local(model, sub.value))):
                continue
            hit = True
            idx = sub.slice
            vals = T.resolve_local(model, idx) if isinstance(idx, ast.Name) else [idx]
            ok = bool(vals) and all(isinstance(v, ast.Call) and getattr(v.func, 'id', '') == 'next'
                                    and any(isinstance(x, ast.Call) and T.call_name(x) == 'isspace' for x in ast.walk(v))
                                    for v in vals)
            if not ok and isinstance(idx, ast.Name):
                ok = _first_nonspace_loop(f.node, idx.id)
            if ok:
                r.ok(n, 'placeholder positions = position of the first non-blank character', nontrivial=True)
            else:
                r.fail(n, 'the placeholder is mapped to %s, not to the first non-blank character of the '
                       'inclusion: a message on the placeholder points at the white space in front of '
                       'the foreign words' % unparse(sub),
                       witness='\\foreignlanguage{german}{ followed by a line break and indentation')
    if not hit:
        r.undec(f.node, 'position list of the placeholder not recognised')
        r.instances = 1
    return r


# ----------------------------------------------------------------------------- EN2 / PS6 / TH7
def en2(model):
    r = RuleResult('EN2', 'report generators encode text for byte arithmetic only with UTF-8 (or '
                   'with an error handler): text of the answer or of the file need not be '
                   'representable in the encoding of the input file', floor=0)
    for m in model.mods.values():
        if not m.short.startswith('shell.gen'):
            continue
        for n in ast.walk(m.tree):
            if isinstance(n, ast.Call) and isinstance(n.func, ast.Attribute) and n.func.attr == 'encode':
                args = list(n.args) + [k.value for k in n.keywords if k.arg == 'encoding']
                errs = [k for k in n.keywords if k.arg == 'errors'] or n.args[1:2]
                if not args or all(isinstance(a, ast.Constant) and str(a.value).lower().replace('-', '') == 'utf8' for a in args[:1]):
                    r.ok(n, 'UTF-8', sample=False)
                elif errs:
                    r.ok(n, 'encoding with an error handler', nontrivial=True)
                else:
                    r.fail(n, 'text is encoded with %s without an error handler: a character outside '
                           'that encoding (an en dash generated by the filter, any character of a '
                           'message) ends in UnicodeEncodeError' % unparse(args[0]),
                           witness='--output xml-b --encoding latin-1 and a file that contains --')
    return r


def ps6(model):
    r = RuleResult('PS6', 'the options object cmdline is read-only once the shell has started: no '
                   'function that runs per file or per request assigns an attribute of it', floor=0)
    for f in model.all_funcs():
        if isinstance(f.node, ast.Lambda) or not f.mod.short.startswith('shell'):
            continue
        for n in iter_scope(f.node):
            tg = []
            if isinstance(n, ast.Assign):
                tg = n.targets
            elif isinstance(n, (ast.AugAssign, ast.AnnAssign)):
                tg = [n.target]
            for t in tg:
                if isinstance(t, ast.Attribute) and isinstance(t.value, ast.Name) and t.value.id == 'cmdline':
                    r.fail(n, '%s assigns cmdline.%s: the value computed for one file / request is '
                           'used for all later ones' % (f.name, t.attr),
                           witness='--context -1 with two files of different length')
    r.instances = max(r.instances, 1)
    return r


def th7(model):
    r = RuleResult('TH7', 'the "single backslash" extension of a highlight is applied only to a span '
                   'of length 1: the length handed to correct_mark_macroname is the length of the '
                   'span', floor=1)
    from .th import html_phases
    ph = html_phases(model)
    f = ph['collect'][0] if ph['collect'] else model.func('shell.genhtml.generate_html')
    calls = [n for n in iter_scope(f.node) if isinstance(n, ast.Call) and T.call_name(n) == 'correct_mark_macroname']
    if not calls:
        r.undec(f.node, 'call of correct_mark_macroname not found')
        r.instances = 1
    for c in calls:
        if len(c.args) < 2:
            continue
        ln = c.args[1]
        if isinstance(ln, ast.Constant):
            k = ln.value
            def pred(e, t):
                if not (t and isinstance(e, ast.Compare) and isinstance(e.ops[0], ast.Eq)):
                    return False
                txt = (unparse(e.left) + '==' + unparse(e.comparators[0])).replace(' ', '')
                return txt in ('h.end==h.beg+%d' % k, 'h.end-h.beg==%d' % k, 'h.beg+%d==h.end' % k)
            if guards.has_fact(c, pred):
                r.ok(c, 'literal length %d under the test that the span has this length' % k, nontrivial=True)
            else:
                r.fail(c, 'correct_mark_macroname is told that the span has length %d, but nothing tests '
                       'that: every match that begins at a backslash is cut down to the macro name' % k,
                       witness='a match on \\"Ubelx or on \\ae ther')
        elif unparse(ln).replace(' ', '') in ('h.end-h.beg',):
            r.ok(c, 'the span length is passed', nontrivial=True)
        else:
            r.undec(c, 'length argument not recognised')
    return r


# ----------------------------------------------------------------------------- ST1
STAR_FORMS = {
    # macros that LaTeX (or the named package) also defines in a starred form; written down
    # from the LaTeX / amsthm documentation, not from the repository
    '\\newcommand': 'LaTeX', '\\renewcommand': 'LaTeX', '\\providecommand': 'LaTeX',
    '\\newtheorem': 'amsthm', '\\part': 'LaTeX', '\\chapter': 'LaTeX', '\\section': 'LaTeX',
    '\\subsection': 'LaTeX', '\\subsubsection': 'LaTeX', '\\vspace': 'LaTeX', '\\hspace': 'LaTeX',
}


def st1(model):
    from .rg import _param_strings, _entry_name
    r = RuleResult('ST1', 'a macro that also exists in a starred form (\\section*, \\newcommand*, '
                   '\\newtheorem* of amsthm, \\vspace* ...) is declared with a leading * in its '
                   'argument code: otherwise the star is taken for the first argument and the '
                   'real arguments are copied to the text', floor=6)
    pstr = _param_strings(model)
    seen = set()
    for ent in tables.registry(model):
        name = _entry_name(model, ent, pstr)
        if name not in STAR_FORMS or ent['kind'] != 'Macro':
            continue
        code = ent['args']
        if code is None:
            code = ent['kw'].get('args')
        if not isinstance(code, ast.Constant):
            continue
        seen.add(name)
        if str(code.value).startswith('*'):
            r.ok(ent['node'], '%s accepts its starred form' % name, sample=False)
        else:
            r.fail(ent['node'], '%s is declared with the argument code %r, without a leading *: in '
                   '%s* (%s) the star becomes the first argument' % (name, code.value, name, STAR_FORMS[name]),
                   witness='\\usepackage{amsthm}\\newtheorem*{remark}{Remark} leaves "Remark" in the text '
                           'and declares an environment called *')
    # \verb is scanned, not declared: LaTeX also has \verb*|..| (visible blanks)
    sv = model.func('scanner.Scanner.scan_verb')
    star = [n for n in ast.walk(sv.node) if isinstance(n, ast.Compare) and any(
        isinstance(c, ast.Constant) and c.value == '*' for c in [n.left] + n.comparators)] + [
        n for n in ast.walk(sv.node) if isinstance(n, ast.Call) and T.call_name(n) == 'startswith' and n.args
        and isinstance(n.args[0], ast.Constant) and str(n.args[0].value).endswith('*')]
    if star:
        r.ok(star[0], '\\verb* is recognised by the scanner', nontrivial=True)
    else:
        r.fail(sv.node, 'scan_verb does not know the starred form \\verb*: the star is taken for the '
               'delimiter and a correct \\verb*|x y| ends in the error mark "bad \\verb argument"',
               stmt='scan_verb star form', witness='A \\verb*|x y| B')
    return r


# ----------------------------------------------------------------------------- SIG1
LATEX_SIGNATURES = {
    # optional ([..] = O) and mandatory ({..} = A) arguments as documented for LaTeX2e (latex2e
    # reference manual); only constructs that the built-in tables declare are compared
    'macro': {
        '\\bibitem': 'OA', '\\caption': 'OA', '\\cite': 'OA', '\\footnote': 'OA',
        '\\footnotetext': 'OA', '\\footnotemark': 'O', '\\framebox': 'OOA',
        '\\documentclass': 'OA', '\\usepackage': 'OA', '\\part': 'OA', '\\chapter': 'OA',
        '\\section': 'OA', '\\subsection': 'OA', '\\subsubsection': 'OA', '\\label': 'A',
        '\\ref': 'A', '\\pageref': 'A', '\\index': 'A', '\\include': 'A', '\\input': 'A',
        '\\newcommand': 'AOOA', '\\renewcommand': 'AOOA', '\\hspace': 'A', '\\vspace': 'A',
        '\\pagestyle': 'A', '\\thispagestyle': 'A', '\\pagenumbering': 'A',
        '\\bibliographystyle': 'A', '\\vphantom': 'A', '\\phantom': 'A', '\\hphantom': 'A',
    },
    'env': {'figure': 'O', 'table': 'O', 'minipage': 'OOOA', 'tabular': 'OA', 'thebibliography': 'A'},
}


def _accepts(declared, reference):
    """declared argument code (star stripped) accepts every call form of the reference"""
    def shape(code):
        out, o = [], 0
        for c in code:
            if c == 'O':
                o += 1
            elif c == 'A':
                out.append(o)
                o = 0
        return out, o
    d, dt = shape(declared)
    f, ft = shape(reference)
    if len(d) != len(f):
        return False
    return all(x >= y for x, y in zip(d, f)) and dt >= ft


def sig1(model):
    from .rg import _param_strings, _entry_name, latex_defs
    r = RuleResult('SIG1', 'the built-in declarations of standard LaTeX constructs accept the '
                   'optional arguments LaTeX documents for them (\\begin{minipage}[t]{5cm}, '
                   '\\begin{tabular}[t]{ll}, \\bibitem[label]{key}, ...): an undeclared [..] is copied '
                   'to the text together with the following mandatory argument', floor=15)
    pstr = _param_strings(model)
    for ent in tables.registry(model):
        if ent['node']._mod.short != 'parameters':
            continue
        name = _entry_name(model, ent, pstr)
        kind = 'macro' if ent['kind'] == 'Macro' else 'env'
        ref = LATEX_SIGNATURES[kind].get(name)
        if ref is None:
            continue
        code = ent['args'] if ent['args'] is not None else ent['kw'].get('args')
        codev = code.value if isinstance(code, ast.Constant) else ''
        dec = str(codev).lstrip('*')
        if _accepts(dec, ref):
            r.ok(ent['node'], '%s: declared %r accepts the LaTeX form %r' % (name, codev, ref), sample=False)
        else:
            r.fail(ent['node'], '%s is declared with the arguments %r, LaTeX documents %r: an optional '
                   'argument of a real document is not consumed and leaks into the text' % (name, codev, ref),
                   stmt='signature of ' + name,
                   witness='\\begin{minipage}[t]{5cm} text \\end{minipage}  ->  "t]5cm text"')
    for m, name, nargs, body, node in latex_defs(model):
        if m.short != 'parameters':
            continue
        ref = LATEX_SIGNATURES['macro'].get(name)
        if ref is None:
            continue
        # \newcommand{\x}[n][default]: n arguments, the first optional iff a default is given
        src = m.src
        import re as _re
        mm = _re.search(_re.escape('\\newcommand{' + name + '}') + r'(\[(\d)\])?(\[[^\]]*\])?', src)
        n = int(mm.group(2)) if mm and mm.group(2) else 0
        dec = ('O' + 'A' * (n - 1)) if mm and mm.group(3) is not None and n else 'A' * n
        if _accepts(dec, ref):
            r.ok(node, '%s: \\newcommand form %r accepts %r' % (name, dec, ref), sample=False)
        else:
            r.fail(node, '%s is defined with the arguments %r, LaTeX documents %r: an optional argument '
                   'is not consumed and leaks into the text' % (name, dec, ref),
                   stmt='signature of ' + name,
                   witness='\\bibitem[Kn84]{knuth}  ->  "Kn84]knuth"')
    return r


# ----------------------------------------------------------------------------- DF2
def df2(model):
    r = RuleResult('DF2', 'the content of a removed environment is discarded completely: the caller '
                   'that lets expand_sequence run up to the end of the environment (env_stop=..) and '
                   'drop the collected tokens also drops the text flows (footnotes, captions) that '
                   'were extracted meanwhile - it saves len(self.extracted) before and truncates '
                   'the list in place afterwards', floor=1)
    n = 0
    for f in model.all_funcs():
        if isinstance(f.node, ast.Lambda) or not isinstance(f.node.body, list):
            continue
        for c in iter_scope(f.node):
            if not (isinstance(c, ast.Call) and T.call_name(c) == 'expand_sequence'
                    and any(k.arg == 'env_stop' for k in c.keywords)):
                continue
            n += 1
            st = _stmt_of(c)
            blk = st._parent
            seq = next((getattr(blk, fld) for fld in ('body', 'orelse') if st in getattr(blk, fld, [])), [])
            i = seq.index(st)
            saved = None
            for s in seq[:i]:
                if isinstance(s, ast.Assign) and isinstance(s.targets[0], ast.Name) and isinstance(s.value, ast.Call) \
                        and getattr(s.value.func, 'id', '') == 'len' and s.value.args \
                        and unparse(s.value.args[0]).endswith('.extracted'):
                    saved = s.targets[0].id
            trunc = [s for s in seq[i + 1:] if isinstance(s, ast.Delete) and len(s.targets) == 1
                     and isinstance(s.targets[0], ast.Subscript) and unparse(s.targets[0].value).endswith('.extracted')
                     and isinstance(s.targets[0].slice, ast.Slice) and s.targets[0].slice.upper is None
                     and saved is not None and unparse(s.targets[0].slice.lower) == saved]
            if saved and trunc:
                r.ok(c, 'flows extracted inside the removed environment are dropped (del ...[%s:])' % saved,
                     nontrivial=True)
            else:
                r.fail(c, 'the tokens of a removed environment are dropped, but the footnotes and captions '
                       'extracted while it was expanded stay in self.extracted and are output',
                       witness='\\begin{tikzpicture}\\node{A\\footnote{hidden text}};\\end{tikzpicture} with package tikz')
    if n == 0:
        r.undec(model.func('parser.Parser.begin_environment').node, 'no expand_sequence(.., env_stop=..) call found')
        r.instances = 1
    return r


# ----------------------------------------------------------------------------- SBL1
def sbl1(model):
    r = RuleResult('SBL1', 'sibling agreement of the definition handlers: every function that '
                   'registers a macro defined in the document (\\newcommand / \\renewcommand and '
                   '\\def) first consults Parameters.newcommand_ignore - the filter\'s own macros '
                   '\\LTadd, \\LTskip, \\LTalter, \\LTinput keep their built-in meaning', floor=2)
    for q in ('handlers.h_newcommand', 'parser.Parser.parse_def_macro'):
        f = model.func(q)
        stores = [n for n in iter_scope(f.node) if isinstance(n, ast.Assign) and isinstance(n.targets[0], ast.Subscript)
                  and unparse(n.targets[0].value).endswith('.the_macros')]
        if not stores:
            r.undec(f.node, 'no registration found in %s' % f.name)
            r.instances += 1
            continue
        for s in stores:
            ok = guards.has_fact(s, lambda e, t: isinstance(e, ast.Compare) and isinstance(e.ops[0], (ast.In, ast.NotIn))
                                 and unparse(e.comparators[0]).endswith('newcommand_ignore')
                                 and isinstance(e.ops[0], ast.NotIn) == t)
            if ok:
                r.ok(s, '%s registers only names outside newcommand_ignore' % f.name, nontrivial=True)
            else:
                r.fail(s, '%s registers the definition without consulting newcommand_ignore, unlike its '
                       'sibling: a \\def of \\LTskip / \\LTadd in the document overrides the built-in '
                       'meaning and hidden text appears' % f.name,
                       witness='\\def\\LTskip#1{#1} A \\LTskip{hidden} B')
    return r


# ----------------------------------------------------------------------------- LT1
def _lookahead_restores_lang(model):
    """expand_arguments: no skip_space(); the skipping loop collects LanguageTokens in a list L; the branches
    for an absent star and an absent optional argument call buf.back(L)"""
    f = model.func('parser.Parser.expand_arguments')
    if any(isinstance(n, ast.Call) and T.call_name(n) == 'skip_space' for n in iter_scope(f.node)):
        return False
    coll = None
    for lp in iter_scope(f.node):
        if isinstance(lp, ast.While) and any(isinstance(c, ast.Call) and T.call_name(c) == 'next' for c in ast.walk(lp)):
            for n in ast.walk(lp):
                if isinstance(n, ast.Call) and T.call_name(n) == 'append' and isinstance(n.func.value, ast.Name) \
                        and any('LanguageToken' in unparse(e) for e, t in guards.facts(n) if t):
                    coll = n.func.value.id
    if coll is None:
        # the skipping loop may live in a helper that returns (token, language tokens it skipped)
        for n in iter_scope(f.node):
            if isinstance(n, ast.Assign) and len(n.targets) == 1 and isinstance(n.targets[0], ast.Tuple) \
                    and isinstance(n.value, ast.Call):
                rc = model.resolve_call(n.value)
                if not (rc and rc[0] == 'func' and not isinstance(rc[1].node, ast.Lambda)):
                    continue
                g = rc[1]
                if any(isinstance(c, ast.Call) and T.call_name(c) == 'skip_space' for c in iter_scope(g.node)):
                    continue
                for rt in T.func_returns(g):
                    if isinstance(rt, ast.Tuple) and len(rt.elts) == len(n.targets[0].elts):
                        for k, el in enumerate(rt.elts):
                            vals = [el]
                            if isinstance(el, ast.Name):
                                vals = T.resolve_local(model, el)
                            for v in vals:
                                if isinstance(v, ast.ListComp) and any('LanguageToken' in unparse(c) for gg in v.generators for c in gg.ifs) \
                                        and isinstance(n.targets[0].elts[k], ast.Name):
                                    coll = n.targets[0].elts[k].id
    if coll is None:
        return False
    need = 0
    have = 0
    scopes = [(f, coll)]
    # the list may be handed to a helper that reads the argument
    for c in iter_scope(f.node):
        if isinstance(c, ast.Call) and any(isinstance(a, ast.Name) and a.id == coll for a in c.args):
            rc = model.resolve_call(c)
            if rc and rc[0] == 'func' and not isinstance(rc[1].node, ast.Lambda):
                g = rc[1]
                params = g.params[1:] if g.cls is not None and g.outer is None else g.params
                k = next(i for i, a in enumerate(c.args) if isinstance(a, ast.Name) and a.id == coll)
                if k < len(params):
                    scopes.append((g, params[k]))
    for fn_, coll in scopes:
      for n in iter_scope(fn_.node):
        if isinstance(n, ast.If):
            fs = []
            guards.split_fact(n.test, True, fs)
            if any(isinstance(e, ast.Compare) and len(e.ops) == 1 and isinstance(e.ops[0], ast.Eq)
                   and isinstance(e.comparators[0], ast.Constant) and e.comparators[0].value in ('*', '[')
                   and unparse(e.left).endswith('.txt') for e, t in fs):
                need += 1
                # the branch in which the argument is absent: the else part, or (if the then part always
                # leaves) the statements behind the if
                rest = list(n.orelse)
                if not rest and always_exits(n.body):
                    par = getattr(n, '_parent', None)
                    for fld in ('body', 'orelse'):
                        seq = getattr(par, fld, None)
                        if isinstance(seq, list) and n in seq:
                            rest = seq[seq.index(n) + 1:]
                if any(isinstance(c, ast.Call) and T.call_name(c) == 'back' and c.args and unparse(c.args[0]) == coll
                       for s_ in rest for c in ast.walk(s_)):
                    have += 1
    return need >= 2 and have == need


def lt1(model):
    r = RuleResult('LT1', 'what Buffer.skip_space() skips is dropped for good: the classes that '
                   'is_space() accepts carry no state.  A LanguageToken does (it opens or closes a '
                   'language section for the splitter): it must not be skippable', floor=1)
    f = model.func('scanner.Buffer.is_space')
    names = T.is_space_classes(model)
    if not names:
        r.undec(f.node, 'class list of is_space not recognised')
        r.instances = 1
        return r
    harmless = {'SpaceToken', 'CommentToken', 'ActionToken', 'VoidToken'}
    restored = _lookahead_restores_lang(model)
    for nm in names:
        if nm in harmless:
            r.ok(f.node, '%s carries no state' % nm, sample=False)
        elif nm == 'LanguageToken' and restored:
            r.ok(f.node, 'LanguageToken is skippable, and the look-ahead of expand_arguments for a star / optional '
                 'argument puts the language tokens it skipped back when the argument is absent', nontrivial=True)
        else:
            r.fail(f.node, 'is_space() accepts %s: skip_space() behind a macro without arguments, or in '
                   'front of an optional argument that is not there, drops the token that closes a '
                   '\\foreignlanguage / otherlanguage section; all following text is assigned to the '
                   'foreign language' % nm, stmt='is_space accepts ' + nm,
                   witness='A \\foreignlanguage{german}{Das ist \\LaTeX} more english text ...  (multi-language mode)')
    return r


def lt2(model):
    r = RuleResult('LT2', 'as long as is_space() accepts LanguageToken, expand_macro does not skip the '
                   'space behind a macro name with skip_space(): the token that closes a '
                   '\\foreignlanguage argument stands exactly there', floor=1)
    isp = model.func('scanner.Buffer.is_space')
    accepts = 'LanguageToken' in T.is_space_classes(model)
    f = model.func('parser.Parser.expand_macro')
    calls = [n for n in iter_scope(f.node) if isinstance(n, ast.Call) and T.call_name(n) == 'skip_space']
    if not accepts:
        r.ok(isp.node, 'is_space() does not accept LanguageToken', nontrivial=True)
        return r
    if calls:
        r.fail(calls[0], 'expand_macro skips the space behind the macro name with skip_space(), which '
               'drops a LanguageToken: the switch back at the end of a \\foreignlanguage argument '
               'is lost, all following text is assigned to the foreign language',
               witness='A \\foreignlanguage{german}{Das ist \\LaTeX} more english text  (multi-language mode)')
    else:
        loops = [n for n in iter_scope(f.node) if isinstance(n, ast.While) and 'is_space' in unparse(n.test)]
        if loops and all('LanguageToken' in unparse(n.test) for n in loops):
            r.ok(loops[0], 'the space behind a macro name is skipped up to a LanguageToken', nontrivial=True)
        elif loops:
            r.fail(loops[0], 'the skipping loop of expand_macro crosses LanguageTokens',
                   witness='A \\foreignlanguage{german}{Das ist \\LaTeX} more english text')
        else:
            r.ok(f.node, 'expand_macro does not skip space', sample=False)
    return r


# ----------------------------------------------------------------------------- RX7
def rx7(model):
    r = RuleResult('RX7', 'a pattern that is not a literal (an option value, a joined alternation) and '
                   'is concatenated between anchors or other pattern text is wrapped in a group: '
                   "r'\\A' + x + r'\\Z' anchors only the first and the last alternative of x", floor=1)
    anchors_l = ('\\A', '^', '\\b')
    anchors_r = ('\\Z', '$', '\\b')
    for m in model.mods.values():
        for n in ast.walk(m.tree):
            if not (isinstance(n, ast.BinOp) and isinstance(n.op, ast.Add)) or isinstance(getattr(n, '_parent', None), ast.BinOp):
                continue
            parts = []

            def flat(e):
                if isinstance(e, ast.BinOp) and isinstance(e.op, ast.Add):
                    flat(e.left)
                    flat(e.right)
                else:
                    parts.append(e)
            flat(n)
            for i, p in enumerate(parts):
                if isinstance(p, ast.Constant) or i == 0 or i == len(parts) - 1:
                    continue
                a, b = parts[i - 1], parts[i + 1]
                if not (isinstance(a, ast.Constant) and isinstance(a.value, str) and isinstance(b, ast.Constant)
                        and isinstance(b.value, str)):
                    continue
                if not (a.value.endswith(anchors_l) and b.value.startswith(anchors_r)):
                    continue
                # is the middle part possibly an alternation?  (anything that is not re.escape(..))
                if isinstance(p, ast.Call) and unparse(p.func) == 're.escape':
                    r.ok(p, 'escaped text between anchors', sample=False)
                    continue
                vals = T.resolve_local(model, p) if isinstance(p, ast.Name) else [p]
                if vals and all(isinstance(v, ast.Call) and unparse(v.func) == 're.escape' for v in vals):
                    r.ok(p, 'escaped text between anchors', sample=False)
                    continue
                if a.value.endswith('(?:') or a.value.endswith('(') :
                    r.ok(p, 'grouped', sample=False)
                    continue
                r.fail(n, 'the pattern %s stands between the anchors %r and %r without a group: if it is '
                       'an alternation, only its first alternative is anchored on the left and only '
                       'its last on the right' % (unparse(p)[:40], a.value[-4:], b.value[:4]),
                       witness="--skip 'zz.tex|b.tex' also skips xb.tex")
            # grouped form counts as instance
            if any(isinstance(p, ast.Constant) and isinstance(p.value, str) and p.value.endswith('(?:') for p in parts):
                r.instances += 1
    r.instances = max(r.instances, 1)
    return r


# ----------------------------------------------------------------------------- SH3
def sh3(model):
    r = RuleResult('SH3', 'the run that extracts the names of included files (Options(extr=..) in the '
                   'shell) applies no text post-processing: --replace phrases must not rewrite file '
                   'names', floor=1)
    n = 0
    for m in model.mods.values():
        if not m.short.startswith('shell'):
            continue
        for c in ast.walk(m.tree):
            if isinstance(c, ast.Call) and T.call_name(c) == 'Options' and any(k.arg == 'extr' for k in c.keywords):
                ex = [k.value for k in c.keywords if k.arg == 'extr'][0]
                if isinstance(ex, ast.Attribute) and ex.attr == 'extract':
                    continue        # the user's own --extract run: its output is text
                n += 1
                rp = [k for k in c.keywords if k.arg == 'repl']
                if rp and not T.is_const(rp[0].value, None):
                    r.fail(c, 'the file-inclusion scan passes repl=%s: a replacement phrase that occurs in a '
                           'file name changes the name of the file that is read' % unparse(rp[0].value),
                           witness="--include --replace with the rule 'intro & introduction' and \\input{intro}")
                else:
                    r.ok(c, 'the inclusion scan does not rewrite its output', nontrivial=True)
    if n == 0:
        r.undec(model.mod('shell.shell').tree, 'inclusion scan not found')
        r.instances = 1
    return r


# ----------------------------------------------------------------------------- EM6
def _mark_summaries(model):
    """functions whose returned token list may contain the tokens of latex_error()"""
    funcs = [f for f in model.all_funcs() if not isinstance(f.node, ast.Lambda) and isinstance(f.node.body, list)
             and (f.mod.short in ('parser', 'mathparser', 'handlers', 'utils', 'scanner') or f.mod.short.startswith('packages'))]
    may = set()

    def tainted_names(f):
        names = set()
        changed = True
        while changed:
            changed = False
            for n in iter_scope(f.node):
                tgt = val = None
                if isinstance(n, ast.Assign) and len(n.targets) == 1:
                    tgt, val = n.targets[0], n.value
                elif isinstance(n, ast.AugAssign):
                    tgt, val = n.target, n.value
                elif isinstance(n, ast.Expr) and isinstance(n.value, ast.Call) and T.call_name(n.value) in ('append', 'extend') \
                        and isinstance(n.value.func, ast.Attribute) and n.value.args:
                    tgt, val = n.value.func.value, n.value.args[0]
                if tgt is None:
                    continue
                if src_tainted(f, val, names):
                    for x in ([tgt] if isinstance(tgt, ast.Name) else
                              (tgt.elts if isinstance(tgt, ast.Tuple) else [])):
                        if isinstance(x, ast.Name) and x.id not in names:
                            names.add(x.id)
                            changed = True
        return names

    def src_tainted(f, e, names):
        """is the VALUE of e a token list that may contain an error mark?  (structural: the list
        itself, a concatenation, a slice, a conditional - not an attribute or element of it)"""
        if isinstance(e, ast.Name):
            return e.id in names
        if isinstance(e, ast.Call):
            if T.call_name(e) == 'latex_error':
                return True
            rc = model.resolve_call(e)
            if rc and rc[0] == 'func' and rc[1].qname in may:
                return True
            # a token list handed to a function (possibly wrapped: scanner.Buffer(toks)) flows on
            # into its result
            if T.call_name(e) not in ('get_text_direct', 'get_text_expanded', 'len', 'str', 'repr', 'join'):
                return any(src_tainted(f, a, names) for a in e.args)
            return False
        if isinstance(e, ast.BinOp) and isinstance(e.op, ast.Add):
            return src_tainted(f, e.left, names) or src_tainted(f, e.right, names)
        if isinstance(e, ast.Subscript) and isinstance(e.slice, ast.Slice):
            return src_tainted(f, e.value, names)
        if isinstance(e, ast.IfExp):
            return src_tainted(f, e.body, names) or src_tainted(f, e.orelse, names)
        if isinstance(e, ast.Tuple):
            return any(src_tainted(f, x, names) for x in e.elts)
        if isinstance(e, (ast.List,)):
            return any(isinstance(x, ast.Starred) and src_tainted(f, x.value, names) for x in e.elts)
        if isinstance(e, ast.ListComp) and len(e.generators) == 1 and isinstance(e.elt, ast.Name) \
                and isinstance(e.generators[0].target, ast.Name) and e.elt.id == e.generators[0].target.id:
            return src_tainted(f, e.generators[0].iter, names)
        return False
    changed = True
    rounds = 0
    while changed and rounds < 8:
        changed = False
        rounds += 1
        for f in funcs:
            if f.qname in may:
                continue
            names = tainted_names(f)
            for rv in T.func_returns(f):
                if rv is not None and src_tainted(f, rv, names):
                    may.add(f.qname)
                    changed = True
                    break
    return may, tainted_names, src_tainted


EM6_EXCEPTIONS = {
    # (function, variable): reason
    ('parser.Parser.parse', 'main'): 'extraction mode (--extr) outputs the extracted arguments only; the main '
                                      'text, with whatever it contains, is dropped by design (rule EX1)',
}


def em6(model):
    r = RuleResult('EM6', 'a diagnostic is never printed without its mark: a token list that may hold the '
                   'tokens of latex_error() is not overwritten by a value that is not built from it '
                   '(simple equations and removed equation environments replace the collected tokens '
                   'by one placeholder - the mark has to be carried over)', floor=1)
    may, tainted_names, src_tainted = _mark_summaries(model)
    n_sites = 0
    for q in sorted(may):
        f = model.func(q)
        names = tainted_names(f)
        ret_names = {x.id for rv in T.func_returns(f) if rv is not None for x in ast.walk(rv) if isinstance(x, ast.Name)}
        # first statement that taints each name
        first = {}
        for n in iter_scope(f.node):
            tgt = val = None
            if isinstance(n, ast.Assign) and len(n.targets) == 1 and isinstance(n.targets[0], ast.Name):
                tgt, val = n.targets[0].id, n.value
            elif isinstance(n, ast.AugAssign) and isinstance(n.target, ast.Name):
                tgt, val = n.target.id, n.value
            if tgt in names and val is not None and src_tainted(f, val, names - {tgt}):
                first[tgt] = min(first.get(tgt, 10**9), n.lineno)
        for n in iter_scope(f.node):
            if not (isinstance(n, ast.Assign) and len(n.targets) == 1 and isinstance(n.targets[0], ast.Name)):
                continue
            v = n.targets[0].id
            if v not in names or v not in ret_names or n.lineno <= first.get(v, 10**9):
                continue
            # whole-list uses of v on the right-hand side
            keeps = src_tainted(f, n.value, {v})
            fresh_src = any(isinstance(x, ast.Call) and (T.call_name(x) == 'latex_error' or (
                (model.resolve_call(x) or (0, 0))[0] == 'func' and model.resolve_call(x)[1].qname in may))
                for x in ast.walk(n.value))
            n_sites += 1
            if (q, v) in EM6_EXCEPTIONS:
                r.exception('%s, variable %s' % (q, v), EM6_EXCEPTIONS[(q, v)])
                continue
            if keeps or fresh_src or src_tainted(f, n.value, names - {v}):
                r.ok(n, '%s is rebuilt from itself' % v, sample=False)
            else:
                r.fail(n, '%s may hold an error mark (its diagnostic has been printed) and is replaced by '
                       '%s: the mark does not reach the plain text' % (v, unparse(n.value)[:50].replace('\n', ' ')),
                       witness='--seqs (simple equations) and a displayed equation that is not closed: '
                               '"\\[ a = b" followed by a blank line')
    r.instances = max(r.instances, 1)
    return r
