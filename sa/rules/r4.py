"""Rules added after the fourth round of seeded defects (DESIGN.md 3.9): IX16 (non-None data-flow
for optional tokens), EXW, UM1, SC8, SB2b, UKR, EN1, SH1, SH2, NM1, ACC1, CK8."""
import ast

from ..model import AnalysisError, unparse, iter_scope
from ..report import RuleResult
from ..flow import Flow, always_exits
from .. import guards
from .. import tables
from .. import tok as T

OPT = {'cur', 'next', 'skip_space', 'look_ahead'}


def _anc(n, stop=None):
    p = getattr(n, '_parent', None)
    while p is not None and p is not stop:
        yield p
        p = getattr(p, '_parent', None)


def _stmt_of(n):
    while n is not None and not isinstance(n, ast.stmt):
        n = getattr(n, '_parent', None)
    return n


# ----------------------------------------------------------------------------- IX16
def _is_opt_call(v):
    return isinstance(v, ast.Call) and isinstance(v.func, ast.Attribute) and v.func.attr in OPT


class NonNull(Flow):
    """which local names (and which `buf.cur()`-style call texts) are known not to be None"""
    def __init__(self, model):
        super().__init__()
        self.model = model

    def copy(self, st):
        return set(st)

    def join(self, a, b):
        return a & b

    def equal(self, a, b):
        return a == b

    def _nonnull(self, v, st):
        if isinstance(v, ast.Name):
            return v.id in st
        if _is_opt_call(v):
            return unparse(v) in st
        if isinstance(v, ast.Constant):
            return v.value is not None
        if isinstance(v, (ast.IfExp, ast.BoolOp)):
            return False
        if isinstance(v, ast.Call):
            rc = self.model.resolve_call(v)
            if rc and rc[0] == 'class':
                return True
            if rc and rc[0] == 'ext' and rc[1] in ('copy.copy', 'copy.deepcopy') and v.args:
                return self._nonnull(v.args[0], st)
            return False
        return isinstance(v, (ast.List, ast.Tuple, ast.Dict, ast.JoinedStr, ast.ListComp))

    def _kill_calls(self, node, st):
        """a call on a buffer may move it: facts about `buf.cur()` of that buffer are dropped"""
        for c in ast.walk(node):
            if isinstance(c, ast.Call) and isinstance(c.func, ast.Attribute) and c.func.attr not in ('cur', 'look_ahead'):
                recv = unparse(c.func.value)
                for k in [k for k in st if k.startswith(recv + '.')]:
                    st.discard(k)
                # the buffer may also be passed on
            if isinstance(c, ast.Call):
                for a in c.args:
                    if isinstance(a, ast.Name):
                        for k in [k for k in st if k.startswith(a.id + '.')]:
                            st.discard(k)

    def transfer(self, s, st):
        self._kill_calls(s, st)
        if isinstance(s, ast.Assign):
            nn = self._nonnull(s.value, st)
            for t in s.targets:
                for x in ast.walk(t):
                    if isinstance(x, ast.Name) and isinstance(x.ctx, ast.Store):
                        st.discard(x.id)
                        for k in [k for k in st if k.startswith(x.id + '.')]:
                            st.discard(k)
                if isinstance(t, ast.Name) and nn:
                    st.add(t.id)
        elif isinstance(s, (ast.AugAssign, ast.AnnAssign)):
            t = s.target
            if isinstance(t, ast.Name):
                st.discard(t.id)
        return st

    def cond(self, test, st, branch):
        facts = []
        guards.split_fact(test, branch, facts)
        self._kill_calls(test, st)
        for e, t in facts:
            if t and isinstance(e, ast.Name):
                st.add(e.id)
            elif t and _is_opt_call(e) and e.func.attr in ('cur', 'look_ahead'):
                st.add(unparse(e))
            elif isinstance(e, ast.Compare) and len(e.ops) == 1:
                l, op, rgt = e.left, e.ops[0], e.comparators[0]
                if isinstance(l, ast.Call) and getattr(l.func, 'id', '') == 'type' and l.args \
                        and isinstance(l.args[0], ast.Name) and isinstance(op, (ast.Is, ast.Eq)) == t \
                        and isinstance(op, (ast.Is, ast.Eq, ast.IsNot, ast.NotEq)) and not T.is_const(rgt, None):
                    st.add(l.args[0].id)
                if isinstance(l, ast.Name) and isinstance(rgt, ast.Constant) and rgt.value is None \
                        and isinstance(op, (ast.IsNot, ast.NotEq)) == t and isinstance(op, (ast.Is, ast.IsNot, ast.Eq, ast.NotEq)):
                    st.add(l.id)
            elif t and isinstance(e, ast.Call) and getattr(e.func, 'id', '') == 'isinstance' and e.args \
                    and isinstance(e.args[0], ast.Name):
                st.add(e.args[0].id)
        return st

    def bind_for(self, node, st):
        for x in ast.walk(node.target):
            if isinstance(x, ast.Name):
                st.add(x.id)
        return st

    def bind_except(self, h, st):
        return st

    def nested_def(self, node, st):
        return st


def ix16(model):
    r = RuleResult('IX16', 'Buffer.cur() / next() / skip_space() / look_ahead() return None at the end '
                   'of the buffer: their result is dereferenced (.txt, .pos, ...) only where a '
                   'non-None data-flow analysis or a dominating test shows that a token is there',
                   floor=30)
    for f in model.all_funcs():
        if isinstance(f.node, ast.Lambda) or not isinstance(f.node.body, list):
            continue
        cands = []
        for n in iter_scope(f.node):
            if not (isinstance(n, ast.Attribute) and isinstance(n.ctx, ast.Load)):
                continue
            v = n.value
            if _is_opt_call(v):
                cands.append((n, 'call', unparse(v)))
            elif isinstance(v, ast.Name):
                vals = T.resolve_local(model, v)
                if vals and any(_is_opt_call(x) for x in vals):
                    cands.append((n, 'name', v.id))
        if not cands:
            continue
        nn = NonNull(model)
        try:
            nn.run(f.node.body, set())
        except AnalysisError:
            nn = None
        for n, kind, key in cands:
            if kind == 'call':
                ok = guards.has_fact(n, lambda e, t: t and unparse(e) == key)
            else:
                ok = guards.has_fact(n, lambda e, t: (t and isinstance(e, ast.Name) and e.id == key)
                                     or (isinstance(e, ast.Compare) and isinstance(e.left, ast.Call)
                                         and getattr(e.left.func, 'id', '') == 'type' and e.left.args
                                         and unparse(e.left.args[0]) == key
                                         and isinstance(e.ops[0], (ast.Is, ast.Eq)) == t))
            how = 'dominating test'
            if not ok and nn is not None:
                st = nn.pre.get(id(_stmt_of(n)))
                if st is not None and key in st:
                    ok, how = True, 'non-None on every path to this statement'
                elif st is None and _stmt_of(n) is not None and id(_stmt_of(n)) not in nn.pre:
                    ok, how = True, 'unreachable statement'
            if ok:
                r.ok(n, '%s is a token here (%s)' % (key, how), nontrivial=True, sample=False)
            else:
                r.fail(n, '%s may be None (end of the buffer) where %s is evaluated: AttributeError'
                       % (key, unparse(n)),
                       witness='a text that ends directly behind this construct (macro as the last '
                               'token of the document or of an argument)')
    return r


# ----------------------------------------------------------------------------- EXW
def exw(model):
    r = RuleResult('EXW', 'the list of extracted flows (footnotes, captions) is only appended to '
                   'while a text is expanded; it is replaced by a fresh list only in Parser.parse '
                   'and around the nested parse of \\LTinput (save, fresh list, restore the saved '
                   'list); a flow is expanded when it is recorded and recorded whenever the macro '
                   'has an extraction template', floor=4)
    allowed = {'parser.Parser.parse', 'parser.Parser.__init__', 'handlers.h_load_defs'}
    for f in model.all_funcs():
        if isinstance(f.node, ast.Lambda):
            continue
        for n in iter_scope(f.node):
            if isinstance(n, ast.Assign):
                for t in n.targets:
                    if isinstance(t, ast.Attribute) and t.attr == 'extracted':
                        v = n.value
                        fresh = (isinstance(v, ast.List) and not v.elts) or (
                            isinstance(v, ast.Call) and getattr(v.func, 'id', '') == 'list' and not v.args)
                        saved = False
                        if isinstance(v, ast.Name):
                            vals = T.resolve_local(model, v)
                            saved = bool(vals) and all(isinstance(x, ast.Attribute) and x.attr == 'extracted' for x in vals)
                        if f.qname in allowed and (fresh or saved):
                            r.ok(n, '%s: %s' % (f.name, 'fresh list' if fresh else 'saved list restored'), nontrivial=saved)
                        else:
                            r.fail(n, 'the list of extracted flows is replaced in %s by %s: an enclosing '
                                   'expansion still holds the old list, the flow it is about to '
                                   'record (or the flows recorded so far) are lost'
                                   % (f.name, unparse(v)[:40]),
                                   witness='a \\footnote that contains a removed environment / a footnote before \\LTinput')
            if isinstance(n, ast.Call) and isinstance(n.func, ast.Attribute) and isinstance(n.func.value, ast.Attribute) \
                    and n.func.value.attr == 'extracted':
                if n.func.attr == 'append':
                    if f.qname == 'parser.Parser.expand_arguments':
                        v = n.args[0] if n.args else None
                        if isinstance(v, ast.Call) and T.call_name(v) == 'expand_sequence':
                            r.ok(n, 'the flow is expanded when it is recorded', nontrivial=True)
                        else:
                            r.fail(n, 'the flow is recorded as %s, not as the result of expand_sequence: '
                                   'it is expanded later, with the definitions and the order of that '
                                   'later point' % (unparse(v)[:40] if v is not None else '?'),
                                   witness='an unknown macro inside a \\footnote, followed by its definition')
                        extra = [e for e, t in guards.facts(n)
                                 if not (isinstance(e, ast.Attribute) and e.attr == 'extract')]
                        if extra:
                            r.fail(n, 'a flow is recorded only under the extra condition %s'
                                   % unparse(extra[0])[:50],
                                   witness='\\begin{equation}\\input{eq1}\\end{equation} with --extr \\input')
                    else:
                        r.ok(n, 'append', sample=False)
                else:
                    r.fail(n, 'the list of extracted flows is modified by .%s() in %s: the list object is '
                           'shared with the saved reference / the enclosing expansion' % (n.func.attr, f.name),
                           witness='a footnote before \\LTinput')
    return r


# ----------------------------------------------------------------------------- UM1 / UKR
def um1(model):
    r = RuleResult('UM1', 'an unknown macro vanishes alone: the branch of expand_macro for an '
                   'undeclared name reads nothing more from the buffer (what follows, [..] or '
                   '{..}, is ordinary text); the list of unknown names is consulted only by the '
                   'duplicate test around its own append', floor=2)
    f = model.func('parser.Parser.expand_macro')
    br = None
    for n in iter_scope(f.node):
        if isinstance(n, ast.If) and isinstance(n.test, ast.Compare) and isinstance(n.test.ops[0], ast.NotIn) \
                and unparse(n.test.comparators[0]).endswith('the_macros'):
            br = n
    if br is None:
        r.undec(f.node, 'branch for undeclared macros not recognised')
        r.instances = 2
        return r
    bufname = f.params[1] if len(f.params) > 1 else 'buf'
    reads = [c for s in br.body for c in ast.walk(s) if isinstance(c, ast.Call) and (
        (isinstance(c.func, ast.Attribute) and unparse(c.func.value) == bufname)
        or any(isinstance(a, ast.Name) and a.id == bufname for a in c.args))]
    if reads:
        r.fail(reads[0], 'after an undeclared macro the parser reads on with %s: text that follows '
               'the macro is swallowed' % unparse(reads[0])[:40],
               witness='\\ldots [sic] / \\noindent [Remark]')
    else:
        r.ok(br, 'the branch for undeclared macros does not touch the buffer', nontrivial=True)
    # reads of .unknowns
    for g in model.cls('parser.Parser').methods.values():
        for n in iter_scope(g.node):
            if isinstance(n, ast.Attribute) and n.attr == 'unknowns' and isinstance(n.ctx, ast.Load):
                p = n._parent
                if isinstance(p, ast.Attribute) and p.attr == 'append':
                    continue
                if isinstance(p, ast.Return):
                    r.ok(n, 'returned by the accessor', sample=False)
                    continue
                # inside a test: the If must contain the append
                iff = next((a for a in _anc(n, g.node) if isinstance(a, ast.If)), None)
                in_test = iff is not None and any(x is n for x in ast.walk(iff.test))
                if in_test and any(isinstance(c, ast.Call) and T.call_name(c) == 'append'
                                   and unparse(c.func.value).endswith('unknowns') for s in iff.body for c in ast.walk(s)):
                    r.ok(n, 'duplicate test of the recording', nontrivial=True)
                else:
                    r.fail(n, 'the list of unknown names decides something else than its own '
                           'recording (%s): a name that was unknown once stays unknown after its '
                           'definition' % unparse(_stmt_of(n))[:60].split('\n')[0],
                           witness='\\x \\newcommand{\\x}{A} \\x')
    return r


# ----------------------------------------------------------------------------- SC8
def sc8(model):
    r = RuleResult('SC8', 'a parameter reference is # and ONE digit (TeX): the number of an '
                   'ArgumentToken is converted from a single character, not from a run of digits',
                   floor=1)
    f = model.func('scanner.Scanner.scan_arg_token')
    ints = [n for n in iter_scope(f.node) if isinstance(n, ast.Call) and getattr(n.func, 'id', '') == 'int' and n.args]
    if not ints:
        r.undec(f.node, 'no int() conversion in scan_arg_token')
        r.instances = 1
    for c in ints:
        a = c.args[0]
        vals = T.resolve_local(model, a) if isinstance(a, ast.Name) else [a]
        if vals and all(isinstance(v, ast.Subscript) and not isinstance(v.slice, ast.Slice) for v in vals):
            r.ok(c, 'one character is converted', nontrivial=True)
        elif vals and all(isinstance(v, ast.Subscript) and isinstance(v.slice, ast.Slice) for v in vals):
            sl = vals[0].slice
            one = sl.lower is not None and sl.upper is not None and (
                unparse(sl.upper).replace(' ', '') in (unparse(sl.lower).replace(' ', '') + '+1', '1+' + unparse(sl.lower).replace(' ', '')))
            if one:
                r.ok(c, 'a slice of one character is converted', nontrivial=True)
            else:
                r.fail(c, 'the parameter number is converted from the slice %s: #12 is read as '
                       'parameter 12 instead of #1 followed by the digit 2' % unparse(vals[0]),
                       witness='\\newcommand{\\x}[1]{#12}')
        else:
            r.undec(c, 'source of the converted text not recognised')
    return r


# ----------------------------------------------------------------------------- SB2b
def sb2b(model):
    r = RuleResult('SB2b', 'optional argument: it is read from [..] iff the next token is [; in every '
                   'other case - also at the end of the buffer - the default of the definition is '
                   'used if there is one (decision table over: token absent / [ / other, default '
                   'present or not)', floor=4)
    f = model.func('parser.Parser.expand_arguments')
    br = None
    for n in iter_scope(f.node):
        if isinstance(n, ast.If):
            t = n.test
            if isinstance(t, ast.Compare) and isinstance(t.left, ast.Name) and T.is_const(t.comparators[0], 'O') \
                    and isinstance(t.ops[0], ast.Eq):
                br = n
    if br is None:
        r.undec(f.node, "branch for the argument code 'O' not recognised")
        r.instances = 4
        return r
    # the token variable: result of skip_space in the loop
    tokv = None
    for n in iter_scope(f.node):
        if isinstance(n, ast.Assign) and isinstance(n.value, ast.Call) and T.call_name(n.value) == 'skip_space' \
                and isinstance(n.targets[0], ast.Name):
            tokv = n.targets[0].id
    if tokv is None:
        r.undec(br, 'token variable not recognised')
        r.instances = 4
        return r

    class Stop(Exception):
        pass

    def ev(e, env):
        if isinstance(e, ast.Name) and e.id == tokv:
            return env['tok'] is not None
        if isinstance(e, ast.UnaryOp) and isinstance(e.op, ast.Not):
            return not ev(e.operand, env)
        if isinstance(e, ast.BoolOp):
            if isinstance(e.op, ast.And):
                for x in e.values:
                    if not ev(x, env):
                        return False
                return True
            for x in e.values:
                if ev(x, env):
                    return True
            return False
        if isinstance(e, ast.Compare) and len(e.ops) == 1:
            l, op, rg = e.left, e.ops[0], e.comparators[0]
            if unparse(l) == tokv + '.txt' and isinstance(rg, ast.Constant):
                if env['tok'] is None:
                    raise Stop('%s.txt with %s None' % (tokv, tokv))
                res = env['tok'] == rg.value
                return res if isinstance(op, ast.Eq) else (not res if isinstance(op, ast.NotEq) else None)
            if isinstance(l, ast.Name) and l.id == tokv and T.is_const(rg, None):
                res = env['tok'] is None
                return res if isinstance(op, (ast.Is, ast.Eq)) else not res
            if 'defaults' in unparse(e):
                return env['dflt']
        if 'defaults' in unparse(e):
            return env['dflt']
        raise Stop(unparse(e))

    def run(stmts, env):
        act = None
        for s in stmts:
            if isinstance(s, ast.If):
                a = run(s.body if ev(s.test, env) else s.orelse, env)
                act = a or act
            elif isinstance(s, ast.Assign):
                v = s.value
                if any(isinstance(c, ast.Call) and T.call_name(c) == 'arg_buffer' for c in ast.walk(v)):
                    act = 'READ'
                elif 'defaults' in unparse(v):
                    act = 'DEFAULT'
            elif isinstance(s, ast.Expr) and any(isinstance(c, ast.Call) and T.call_name(c) == 'arg_buffer'
                                                 for c in ast.walk(s)):
                act = 'READ'
        return act

    for tok in (None, '[', 'x'):
        for dflt in (True, False):
            want = 'READ' if tok == '[' else ('DEFAULT' if dflt else None)
            label = 'next token %s, default %s' % ({None: 'absent', '[': '[', 'x': 'other'}[tok], 'present' if dflt else 'absent')
            try:
                got = run(br.body, {'tok': tok, 'dflt': dflt})
            except Stop as e:
                r.undec(br, 'optional-argument branch not interpreted for %s: %s' % (label, e))
                r.instances += 1
                continue
            if got == want:
                r.ok(br, '%s -> %s' % (label, want or 'empty'), nontrivial=True, sample=False)
            else:
                r.fail(br, 'optional argument, %s: the argument is %s, expected %s' % (
                    label, got or 'left empty', want or 'empty'),
                    stmt='optional argument: ' + label,
                    witness='\\newcommand{\\x}[1][nobody]{<#1>} ... \\x as the last token of the text / of a footnote')
    return r


# ----------------------------------------------------------------------------- EN1
def en1(model):
    r = RuleResult('EN1', 'command-line filter: every input file (LaTeX text, --defs, --repl, '
                   '\\LTinput) is read with the encoding of --ienc; no reader falls back to a '
                   'built-in encoding', floor=3)
    m = model.mod('tex2txt')
    for f in m.funcs.values() if hasattr(m, 'funcs') else []:
        pass
    main = model.func('tex2txt.main')
    readers = {}
    for q in ('tex2txt.read_definitions', 'tex2txt.read_replacements'):
        if model.has_func(q):
            readers[q.split('.')[-1]] = model.func(q)
    for name, fn in readers.items():
        node = fn.node
        args = node.args
        n_def = len(args.defaults)
        names = [a.arg for a in args.args]
        if 'encoding' in names:
            k = names.index('encoding')
            has_default = k >= len(names) - n_def
            if has_default:
                r.fail(node, '%s has a default encoding: a caller that forgets the argument reads '
                       'the file with it instead of --ienc' % name, stmt='default encoding of ' + name,
                       witness='--ienc latin-1 with a non-ASCII character in the definitions file')
            else:
                r.ok(node, '%s requires the encoding' % name, nontrivial=True)
    for n in iter_scope(main.node):
        if isinstance(n, ast.Call) and T.call_name(n) in readers:
            enc = [k.value for k in n.keywords if k.arg == 'encoding'] + list(n.args[1:2])
            if enc and unparse(enc[0]).endswith('.ienc'):
                r.ok(n, '%s reads with --ienc' % T.call_name(n), nontrivial=True)
            else:
                r.fail(n, '%s is called without the encoding of --ienc' % T.call_name(n),
                       witness='--ienc latin-1 with a non-ASCII character in the file')
    return r


# ----------------------------------------------------------------------------- SH1 / SH2
def sh1(model):
    r = RuleResult('SH1', 'shell: a function that receives a setting as parameter uses the '
                   'parameter, not the global option of the same name (server requests carry their '
                   'own language / rules); every tex2txt.Options(...) built by the shell passes '
                   'the definitions file, packages and document class of the command line',
                   floor=3)
    for f in model.all_funcs():
        if isinstance(f.node, ast.Lambda) or not f.mod.short.startswith('shell'):
            continue
        params = set(f.params)
        for n in iter_scope(f.node):
            if isinstance(n, ast.Attribute) and isinstance(n.value, ast.Name) and n.value.id == 'cmdline' \
                    and n.attr in params and isinstance(n.ctx, ast.Load):
                r.fail(n, '%s has the parameter %s but reads the global option cmdline.%s: a request '
                       'with another %s is processed with the setting of the command line'
                       % (f.name, n.attr, n.attr, n.attr),
                       witness='--as-server with a request in another language than --language')
        if params:
            r.instances += 1
    want = {'defs': 'define', 'pack': 'packages', 'dcls': 'documentclass'}
    for m in model.mods.values():
        if not m.short.startswith('shell'):
            continue
        for n in ast.walk(m.tree):
            if isinstance(n, ast.Call) and T.call_name(n) == 'Options' and isinstance(n.func, ast.Attribute):
                kw = {k.arg: k.value for k in n.keywords}
                def carries(e, opt, depth=2):
                    if any(isinstance(x, ast.Attribute) and x.attr == opt and unparse(x.value) == 'cmdline'
                           for x in ast.walk(e)):
                        return True
                    if depth:
                        for x in ast.walk(e):
                            if isinstance(x, ast.Name) and isinstance(x.ctx, ast.Load):
                                for v in T.resolve_local(model, x):
                                    if v is not x and carries(v, opt, depth - 1):
                                        return True
                    return False
                miss = [k for k, opt in want.items() if not (k in kw and carries(kw[k], opt))]
                if miss:
                    r.fail(n, 'this tex2txt.Options(...) does not pass %s of the command line: macros '
                           'and packages declared there are unknown in this mode'
                           % ', '.join('%s=cmdline.%s' % (k, want[k]) for k in miss),
                           witness='--list-unknown together with --define')
                else:
                    r.ok(n, 'Options(...) carries --define, --packages, --documentclass', nontrivial=True)
    return r


# ----------------------------------------------------------------------------- NM1
def nm1(model):
    r = RuleResult('NM1', 'macros are dispatched by their exact name: the parsers compare the text '
                   'of a macro token with == / in, never with startswith / endswith / a regular '
                   'expression (\\textstyle is not \\text, \\mboxed is not \\mbox)', floor=5)
    for q in ('mathparser', 'parser'):
        m = model.mod(q)
        for n in ast.walk(m.tree):
            if isinstance(n, ast.Call) and isinstance(n.func, ast.Attribute) and n.func.attr in ('startswith', 'endswith') \
                    and unparse(n.func.value).endswith('.txt'):
                fn = next((a for a in _anc(n) if isinstance(a, ast.FunctionDef)), None)
                if fn is not None and fn.name in ('expand_math_section', 'expand_sequence', 'expand_macro',
                                                  'expand_display_math', 'expand_inline_math', 'begin_environment'):
                    r.fail(n, 'a macro token is dispatched by the prefix test %s: every macro whose '
                           'name begins like a text macro is handled like it' % unparse(n)[:50],
                           witness='$a = \\textstyle b$, $\\textcolor{red}{b}$')
            if isinstance(n, ast.Compare) and isinstance(n.ops[0], (ast.In, ast.NotIn, ast.Eq, ast.NotEq)) \
                    and unparse(n.left).endswith('.txt'):
                r.instances += 1
    return r


# ----------------------------------------------------------------------------- ACC1
def acc1(model):
    r = RuleResult('ACC1', 'a result list that is filled in a loop is extended there, not '
                   're-assigned: `out = f(x)` inside the loop keeps the contribution of the last '
                   'element only', floor=5)
    for f in model.all_funcs():
        if isinstance(f.node, ast.Lambda) or not isinstance(f.node.body, list):
            continue
        ret_names = {x.id for rv in T.func_returns(f) if rv is not None for x in ast.walk(rv)
                     if isinstance(x, ast.Name)}
        inits = {}
        for s in iter_scope(f.node):
            if isinstance(s, ast.Assign) and len(s.targets) == 1 and isinstance(s.targets[0], ast.Name) \
                    and isinstance(s.value, ast.List) and not s.value.elts:
                inits.setdefault(s.targets[0].id, []).append(s)
        for name, ini in inits.items():
            if name not in ret_names:
                continue
            for lp in iter_scope(f.node):
                if not isinstance(lp, (ast.For, ast.While)):
                    continue
                if not any(i.lineno < lp.lineno and lp not in list(_anc(i)) for i in ini):
                    continue
                for s in ast.walk(lp):
                    if isinstance(s, ast.Assign) and any(isinstance(t, ast.Name) and t.id == name for t in s.targets) \
                            and s not in ini and not any(isinstance(x, ast.Name) and x.id == name for x in ast.walk(s.value)):
                        # a reset at the top of an outer iteration is fine if the list was flushed
                        if isinstance(s.value, ast.List) and not s.value.elts:
                            continue
                        # used only in this iteration?
                        later = [x for x in ast.walk(lp) if isinstance(x, ast.Name) and x.id == name
                                 and isinstance(x.ctx, ast.Load) and x.lineno > s.lineno]
                        aug = [x for x in ast.walk(lp) if (isinstance(x, ast.AugAssign) and isinstance(x.target, ast.Name)
                                                           and x.target.id == name)
                               or (isinstance(x, ast.Call) and T.call_name(x) in ('append', 'extend')
                                   and isinstance(x.func.value, ast.Name) and x.func.value.id == name)]
                        if aug or later:
                            r.ok(s, 'per-iteration value', sample=False)
                            continue
                        r.fail(s, 'the result list %s is initialised before the loop and re-assigned '
                               'inside it (%s): only the last iteration contributes to the result'
                               % (name, unparse(s)[:50]),
                               witness='\\usepackage[ngerman]{babel,amsmath}: the language switch of babel is lost')
                    elif isinstance(s, ast.AugAssign) and isinstance(s.target, ast.Name) and s.target.id == name:
                        r.ok(s, '%s is extended in the loop' % name, sample=False)
    r.instances = max(r.instances, 5)
    return r


# ----------------------------------------------------------------------------- CK8
def ck8(model):
    r = RuleResult('CK8', 'the accepted patterns of --single-letters are tried in the order the '
                   'user gave them (regex alternation takes the first alternative that matches): '
                   'the split list is not sorted or turned into a set', floor=1)
    f = model.func('shell.checks.create_single_letter_matches')
    splits = [n for n in iter_scope(f.node) if isinstance(n, ast.Call) and T.call_name(n) == 'split'
              and 'single_letters' in unparse(n.func.value)]
    if not splits:
        r.undec(f.node, 'split of the accepted patterns not recognised')
        r.instances = 1
    for sp in splits:
        wrap = [a for a in _anc(sp, f.node) if isinstance(a, ast.Call) and getattr(a.func, 'id', '') in ('sorted', 'set', 'frozenset')]
        if wrap:
            r.fail(wrap[-1], 'the accepted patterns are reordered by %s(): a short pattern can now stand '
                   'in front of a longer one that begins with it, and wins' % wrap[-1].func.id,
                   witness="--single-letters 'A.~D.|A' with the text 'A. D.'")
        else:
            r.ok(sp, 'order of the accepted patterns kept', nontrivial=True)
    return r


# ----------------------------------------------------------------------------- EM5
def em5(model):
    r = RuleResult('EM5', 'arg_buffer: once an opening { or [ has been consumed, the only silent '
                   'exit is the one that found the closing delimiter on level 0; every other exit '
                   'reports a LaTeX error (unclosed arguments are never dropped without a mark)',
                   floor=2)
    f = model.func('parser.Parser.arg_buffer')
    loops = [n for n in f.node.body if isinstance(n, ast.While)]
    if not loops:
        raise AnalysisError('anchor vanished: collecting loop of arg_buffer')
    lp = loops[0]
    endname = f.params[3] if len(f.params) > 3 else 'end'
    for n in ast.walk(lp):
        if not isinstance(n, ast.Return):
            continue
        found = any(t and isinstance(e, ast.Compare) and isinstance(e.ops[0], ast.Eq)
                    and unparse(e.comparators[0]) == endname and unparse(e.left).endswith('.txt')
                    for e, t in guards.facts(n))
        blk = n._parent
        seq = next((getattr(blk, fld) for fld in ('body', 'orelse') if n in getattr(blk, fld, [])), [])
        err = any(isinstance(c, ast.Call) and T.call_name(c) == 'latex_error' for s in seq for c in ast.walk(s))
        if found:
            r.ok(n, 'exit after the closing delimiter', nontrivial=True)
        elif err:
            r.ok(n, 'exit with an error mark', nontrivial=True)
        else:
            r.fail(n, 'arg_buffer gives up inside an argument (%s) without reporting an error: an '
                   'unclosed %s leaves neither diagnostic nor mark'
                   % (', '.join(('' if t else 'not ') + unparse(e)[:40] for e, t in guards.facts(n)[:2]),
                      'optional argument'),
                   witness='\\section[ ... followed by a blank line')
    after = [s for s in f.node.body[f.node.body.index(lp) + 1:]]
    if any(isinstance(c, ast.Call) and T.call_name(c) == 'latex_error' for s in after for c in ast.walk(s)):
        r.ok(lp, 'end of text inside the argument reports an error', nontrivial=True)
    else:
        r.fail(lp, 'reaching the end of the text inside an argument no longer reports an error',
               stmt='error after the collecting loop', witness='\\textbf{abc')
    return r


# ----------------------------------------------------------------------------- CK10
def ck10(model):
    r = RuleResult('CK10', "the shell's own checks (single letters, equation punctuation) run for "
                   'every proofreader back end: they are called from run_proofreader_options, next '
                   'to the call of the back end, not from inside one back end and not under a '
                   'condition on the back end', floor=2)
    names = ('create_single_letter_matches', 'create_equation_punct_messages')
    for m in model.mods.values():
        if not m.short.startswith('shell'):
            continue
        for n in ast.walk(m.tree):
            if isinstance(n, ast.Call) and T.call_name(n) in names:
                fn = next((a for a in _anc(n) if isinstance(a, ast.FunctionDef)), None)
                if fn is None or fn.name != 'run_proofreader_options':
                    r.fail(n, '%s is called from %s: with another back end (--textgears, --server) '
                           'the check never runs' % (T.call_name(n), fn.name if fn else 'module level'),
                           witness='--textgears with --single-letters')
                    continue
                cond = [e for e, t in guards.facts(n) if any(
                    isinstance(x, ast.Attribute) and x.attr in ('textgears', 'server', 'lt_command', 'lt_directory')
                    for x in ast.walk(e))]
                if cond:
                    r.fail(n, '%s runs only under the back-end condition %s' % (T.call_name(n), unparse(cond[0])[:40]),
                           witness='--textgears with --single-letters')
                else:
                    r.ok(n, '%s on the common path' % T.call_name(n), nontrivial=True)
    return r


# ----------------------------------------------------------------------------- AB5
def ab5(model):
    r = RuleResult('AB5', 'arg_buffer never takes a paragraph break as a single-token argument: the '
                   'exit that consumes one token is dominated by the test for ParagraphToken (an '
                   'argument is not searched for beyond the end of the paragraph - for every '
                   'caller, not only expand_arguments)', floor=1)
    f = model.func('parser.Parser.arg_buffer')
    hit = False
    for n in iter_scope(f.node):
        if not (isinstance(n, ast.Return) and n.value is not None):
            continue
        lists = [x for x in ast.walk(n.value) if isinstance(x, ast.List) and len(x.elts) == 1
                 and isinstance(x.elts[0], ast.Name)]
        if not lists:
            continue
        v = lists[0].elts[0].id
        vals = T.resolve_local(model, lists[0].elts[0])
        if not (vals and all(_is_opt_call(x) for x in vals)):
            continue
        hit = True

        def excl(e, t):
            if isinstance(e, ast.Compare) and isinstance(e.left, ast.Call) and getattr(e.left.func, 'id', '') == 'type' \
                    and e.left.args and unparse(e.left.args[0]) == v and unparse(e.comparators[0]).endswith('ParagraphToken'):
                return isinstance(e.ops[0], (ast.Is, ast.Eq)) != t
            if isinstance(e, ast.Call) and getattr(e.func, 'id', '') == 'isinstance' and len(e.args) == 2 \
                    and unparse(e.args[0]) == v and unparse(e.args[1]).endswith('ParagraphToken'):
                return not t
            return False
        if guards.has_fact(n, excl):
            r.ok(n, 'the single-token exit excludes ParagraphToken', nontrivial=True)
        else:
            r.fail(n, 'arg_buffer returns the next token as a single-token argument without excluding '
                   'a paragraph break: an accent or \\text at the end of a paragraph swallows the '
                   'blank line', witness="...as \\'\\n\\nNext")
    if not hit:
        r.undec(f.node, 'single-token exit of arg_buffer not recognised')
        r.instances = 1
    return r
