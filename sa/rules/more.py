"""IX2s, IX6, ML2, AC1, AC2, LN1: further structural rules (DESIGN.md 3.6, 3.8)."""
import ast
import itertools

from ..model import AnalysisError, unparse, iter_scope
from ..report import RuleResult
from ..rdefs import reachdefs
from ..callgraph import callgraph
from .. import guards
from .. import tok as T
from .struct import _cev, _Stop
from .em import dominating_stmts


# ----------------------------------------------------------------------------- IX2s
MAYBE_EMPTY_CALLS = {'strip', 'lstrip', 'rstrip', 'get_text_expanded', 'get_text_direct', 'join'}


def _maybe_empty_str(model, e):
    """is the value a string that may be empty by construction?"""
    if isinstance(e, ast.Call):
        n = T.call_name(e)
        if n in MAYBE_EMPTY_CALLS:
            return '%s() may return an empty string' % n
        if n == 'next' and len(e.args) == 2 and isinstance(e.args[1], ast.Constant) \
                and e.args[1].value in ('', None):
            return 'next(.., %r) yields the default when nothing is found' % (e.args[1].value,)
    return None


def ix2s(model):
    r = RuleResult('IX2s', 'a constant index into a string that may be empty by construction '
                   '(result of strip / get_text_* / join / next(.., \'\')) is dominated by a truth '
                   'or length test of that string', floor=5)
    for f in model.all_funcs():
        if isinstance(f.node, ast.Lambda) or f.mod.short.startswith('shell'):
            continue
        rd = reachdefs(f)
        for n in iter_scope(f.node):
            if not (isinstance(n, ast.Subscript) and isinstance(n.ctx, ast.Load)
                    and isinstance(n.value, ast.Name) and not isinstance(n.slice, ast.Slice)):
                continue
            idx = n.slice
            if isinstance(idx, ast.UnaryOp) and isinstance(idx.op, ast.USub):
                idx = idx.operand
            if not (isinstance(idx, ast.Constant) and isinstance(idx.value, int)):
                continue
            why = None
            for kind, name, node in rd.defs_of(n.value):
                if kind == 'assign':
                    w = _maybe_empty_str(model, node)
                    if w:
                        why = w
            if why is None:
                continue
            v = n.value.id
            def pred(e, t):
                if t and isinstance(e, ast.Name) and e.id == v:
                    return True
                if 'None' in why and isinstance(e, ast.Compare) and isinstance(e.left, ast.Name) and e.left.id == v \
                        and T.is_const(e.comparators[0], None) and isinstance(e.ops[0], (ast.Is, ast.IsNot, ast.Eq, ast.NotEq)) \
                        and isinstance(e.ops[0], (ast.IsNot, ast.NotEq)) == t:
                    return True
                if t and isinstance(e, ast.Call) and any(isinstance(a, ast.Name) and a.id == v for a in e.args):
                    # a predicate helper whose result implies that its argument is non-empty:
                    #    def ends_with_punct(s): return s and s[-1] in ...
                    rc = model.resolve_call(e)
                    if rc and rc[0] == 'func' and isinstance(rc[1].node, ast.FunctionDef):
                        fn_ = rc[1]
                        rets = [x for x in T.func_returns(fn_)]
                        params = fn_.params[1:] if fn_.cls is not None and fn_.outer is None else fn_.params
                        k = next(i for i, a in enumerate(e.args) if isinstance(a, ast.Name) and a.id == v)
                        if len(rets) == 1 and rets[0] is not None and k < len(params):
                            fs = []
                            guards.split_fact(rets[0], True, fs)
                            if any(t2 and isinstance(e2, ast.Name) and e2.id == params[k] for e2, t2 in fs):
                                return True
                if isinstance(e, ast.Compare) and isinstance(e.left, ast.Call) \
                        and getattr(e.left.func, 'id', '') == 'len' and unparse(e.left.args[0]) == v:
                    return True
                return False
            from ..flow import always_exits
            dom_exit = [d for d in dominating_stmts(n) if isinstance(d, ast.If) and always_exits(d.body)
                        and isinstance(d.test, ast.UnaryOp) and isinstance(d.test.op, ast.Not)
                        and isinstance(d.test.operand, ast.Name) and d.test.operand.id == v]
            if guards.has_fact(n, pred):
                r.ok(n, '%s[%s] under a truth / length test of %s' % (v, unparse(n.slice), v),
                     nontrivial=True)
            elif dom_exit and _only_grows(f, v, dom_exit[-1], n):
                r.ok(n, '`if not %s: <exit>` dominates and %s only grows afterwards' % (v, v),
                     nontrivial=True)
            else:
                r.fail(n, '%s[%s] is evaluated although %s: IndexError' % (v, unparse(n.slice), why),
                       witness='an input for which nothing precedes / the text is blank, e.g. '
                               '\\item[x] at the very start of the text')
    return r


def _only_grows(fn, v, guard, use):
    """between the guard and the use, v is re-bound only by concatenations that contain v"""
    for n in iter_scope(fn.node):
        if isinstance(n, ast.Assign) and any(isinstance(t, ast.Name) and t.id == v for t in n.targets) \
                and guard.lineno < n.lineno <= use.lineno:
            if not (isinstance(n.value, ast.BinOp) and isinstance(n.value.op, ast.Add)
                    and any(isinstance(x, ast.Name) and x.id == v for x in ast.walk(n.value))):
                return False
    return True


# ----------------------------------------------------------------------------- IX6
def ix6(model):
    r = RuleResult('IX6', 'argument references #k are validated against 1 <= k <= n wherever a '
                   'definition is registered (h_newcommand, Expandable.check, parse_def_macro): '
                   'k = 0 would index arguments[-1] at expansion time', floor=3)
    sites = 0
    for f in model.all_funcs():
        if isinstance(f.node, ast.Lambda):
            continue
        for n in iter_scope(f.node):
            if not isinstance(n, ast.Compare):
                continue
            ops = n.ops
            operands = [n.left] + n.comparators
            if not any(isinstance(x, ast.Attribute) and x.attr == 'arg' for x in operands):
                continue
            # normalise to the lower bound test
            lows = []
            for a, op, b in zip(operands, ops, operands[1:]):
                if isinstance(b, ast.Attribute) and b.attr == 'arg' and isinstance(a, ast.Constant):
                    # c <= X.arg / c < X.arg
                    lows.append(('ge' if isinstance(op, ast.LtE) else 'gt' if isinstance(op, ast.Lt) else None, a.value))
                if isinstance(a, ast.Attribute) and a.attr == 'arg' and isinstance(b, ast.Constant):
                    # X.arg < c (error branch) / X.arg >= c
                    lows.append(('lt' if isinstance(op, ast.Lt) else 'ge' if isinstance(op, ast.GtE) else
                                 'le' if isinstance(op, ast.LtE) else None, b.value))
            for kind, c in lows:
                if kind is None:
                    continue
                sites += 1
                lower = {'ge': c, 'gt': c + 1, 'lt': c, 'le': c + 1}[kind]
                if lower == 1:
                    r.ok(n, 'lower bound of the argument reference is 1', nontrivial=True)
                else:
                    r.fail(n, 'argument references are accepted from #%d: #0 passes the check and '
                           'a later use indexes arguments[-1]' % lower,
                           witness='\\newcommand{\\x}{a#0b} ... \\x')
    if sites == 0:
        raise AnalysisError('anchor vanished: validation of argument references')
    return r


# ----------------------------------------------------------------------------- ML2
def _stack_table(model, fn, tokname, stack_pred0, r):
    """decision table {(back, hard, deep): [(action, value text)]} of a language-stack update"""
    def stack_pred(e):
        if stack_pred0(e):
            return True
        if isinstance(e, ast.Name):
            vals = T.resolve_local(model, e)
            return bool(vals) and all(v is not e and stack_pred0(v) for v in vals)
        return False

    def mentions_back(t):
        return any(isinstance(x, ast.Attribute) and x.attr == 'back' and unparse(x.value) == tokname
                   for x in ast.walk(t))
    top = None
    for n in iter_scope(fn.node):
        if isinstance(n, ast.If) and mentions_back(n.test) and not (
                isinstance(n._parent, ast.If) and n in n._parent.orelse and mentions_back(n._parent.test)):
            # not the bookkeeping inside a shortcut (`if same language: ...; continue`)
            p = n._parent
            inside_shortcut = False
            while p is not None and p is not fn.node:
                if isinstance(p, ast.If) and any(isinstance(x, ast.Continue) for x in p.body) and n in list(ast.walk(p)):
                    inside_shortcut = True
                p = getattr(p, '_parent', None)
            if inside_shortcut:
                continue
            top = n
            break
    if top is None:
        return None

    def val_text(e):
        if isinstance(e, ast.Name):
            vals = T.resolve_local(model, e)
            if len(vals) == 1 and vals[0] is not e:
                return val_text(vals[0])
        if isinstance(e, ast.Tuple):
            return '(' + ','.join(val_text(x) for x in e.elts) + ')'
        if isinstance(e, ast.Call) and isinstance(e.func, ast.Name) and not e.args and not e.keywords:
            # a local closure without parameters that only returns an expression
            for d in ast.walk(fn.node):
                if isinstance(d, ast.FunctionDef) and d.name == e.func.id and d is not fn.node \
                        and not d.args.args and len(d.body) == 1 and isinstance(d.body[0], ast.Return) \
                        and d.body[0].value is not None:
                    return val_text(d.body[0].value)
        if isinstance(e, ast.Call) and not e.keywords:
            # a one-line helper `def h(self, a): return <expr>`: its expression with the arguments substituted
            rc = model.resolve_call(e)
            if rc and rc[0] == 'func' and not isinstance(rc[1].node, ast.Lambda) and len(rc[1].node.body) == 1 \
                    and isinstance(rc[1].node.body[0], ast.Return) and rc[1].node.body[0].value is not None:
                g = rc[1]
                params = g.params[1:] if g.cls is not None and g.outer is None else g.params
                if len(params) == len(e.args):
                    import copy as _copy
                    sub = dict(zip(params, e.args))

                    class _S(ast.NodeTransformer):
                        def visit_Name(self, n):
                            return _copy.deepcopy(sub[n.id]) if n.id in sub else n
                    return val_text(_S().visit(_copy.deepcopy(g.node.body[0].value)))
        return unparse(e)

    def actions(stmts, env, top_level=True):
        out = _actions(stmts, env)
        return [a for a in out if a[0] != 'RET']

    def _actions(stmts, env):
        out = []
        for s in stmts:
            if out and out[-1][0] == 'RET':
                break
            if isinstance(s, ast.Return) and s.value is None:
                out.append(('RET', ''))
                break
            if isinstance(s, ast.If):
                try:
                    c = _ev(s.test, env)
                except _Stop:
                    return [('?', unparse(s.test))]
                out += _actions(s.body if c else s.orelse, env)
            elif isinstance(s, ast.Expr) and isinstance(s.value, ast.Call) \
                    and isinstance(s.value.func, ast.Attribute) and stack_pred(s.value.func.value):
                m = s.value.func.attr
                if m == 'pop':
                    out.append(('POP', ''))
                elif m == 'append':
                    out.append(('PUSH', val_text(s.value.args[0])))
                else:
                    out.append(('?', m))
            elif isinstance(s, ast.Assign) and isinstance(s.targets[0], ast.Subscript) \
                    and stack_pred(s.targets[0].value):
                out.append(('REPLACE', val_text(s.value)))
            elif isinstance(s, (ast.Assign, ast.Expr, ast.Pass)):
                pass
            else:
                out.append(('?', type(s).__name__))
        return out

    def _ev(e, env):
        if isinstance(e, ast.Attribute) and unparse(e.value) == tokname and e.attr in ('back', 'hard'):
            return env[e.attr]
        # the stack holds one entry (deep False) or two (deep True): it is never empty, which is
        # what the guard of the pop has to maintain
        depth = 2 if env['deep'] else 1
        if stack_pred(e):
            return depth > 0
        if isinstance(e, ast.Compare) and len(e.ops) == 1 and isinstance(e.comparators[0], ast.Constant) \
                and isinstance(e.comparators[0].value, int) and isinstance(e.left, ast.Call) \
                and getattr(e.left.func, 'id', '') == 'len' and e.left.args and stack_pred(e.left.args[0]):
            c = e.comparators[0].value
            op = e.ops[0]
            if isinstance(op, ast.Gt):
                return depth > c
            if isinstance(op, ast.GtE):
                return depth >= c
            if isinstance(op, ast.Lt):
                return depth < c
            if isinstance(op, ast.LtE):
                return depth <= c
            if isinstance(op, ast.Eq):
                return depth == c
            if isinstance(op, ast.NotEq):
                return depth != c
        if isinstance(e, ast.Call) and getattr(e.func, 'id', '') == 'len' and e.args and stack_pred(e.args[0]):
            return depth > 0
        if isinstance(e, ast.UnaryOp) and isinstance(e.op, ast.Not):
            return not _ev(e.operand, env)
        if isinstance(e, ast.BoolOp):
            vals = [_ev(x, env) for x in e.values]
            return all(vals) if isinstance(e.op, ast.And) else any(vals)
        if isinstance(e, ast.Compare) and len(e.ops) == 1 and isinstance(e.ops[0], (ast.Eq, ast.NotEq)) \
                and (tokname + '.lang') in (unparse(e.left), unparse(e.comparators[0])):
            # the token switches to the language that is current anyway (proposition `same`)
            uses_same.append(e)
            return env['same'] == isinstance(e.ops[0], ast.Eq)
        raise _Stop(unparse(e))
    uses_same = []
    table = {}
    for back, hard, deep in itertools.product((True, False), repeat=3):
        env = {'back': back, 'hard': hard, 'deep': deep, 'same': False}
        table[(back, hard, deep)] = actions([top], env)
    if uses_same:
        # a token that names the current language is treated like any other, except that replacing the top by
        # itself may be skipped: a soft push must still push (its closing token pops), a pop must still pop
        for back, hard, deep in itertools.product((True, False), repeat=3):
            env = {'back': back, 'hard': hard, 'deep': deep, 'same': True}
            acts = actions([top], env)
            ref = table[(back, hard, deep)]
            kinds = [a[0] for a in acts]
            rk = [a[0] for a in ref]
            if kinds != rk and not (hard and not back and kinds == []):
                r.fail(uses_same[0], '%s: a token that switches to the language that is current already is '
                       'handled differently (%s instead of %s for back=%s hard=%s): a soft switch that is not '
                       'pushed is popped all the same by its closing token, and the stacks of parser and '
                       'splitter run apart' % (fn.qname, kinds or ['NONE'], rk or ['NONE'], back, hard),
                       witness='\\begin{otherlanguage}{german} A \\foreignlanguage{german}{B} C\\footnote{D} '
                               '\\end{otherlanguage}')
                break
    return table


def ml2(model):
    r = RuleResult('ML2', 'the two language stack machines agree: the splitter (get_txt_pos_ml) '
                   'and the parser (Parameters.change_parser_lang) both pop on `back` only if the '
                   'stack is deeper than 1, replace the top on `hard`, push otherwise; the parser '
                   'stack records the language code of the token itself', floor=16)
    f1 = model.func('utils.get_txt_pos_ml')
    f2 = model.func('parameters.Parameters.change_parser_lang')
    tokpar = f2.params[1]
    loop = [n for n in iter_scope(f1.node) if isinstance(n, ast.For)]
    tname = loop[0].target.id if loop and isinstance(loop[0].target, ast.Name) else 't'
    # stack of the splitter: the list initialised with [main_lang]
    sname = None
    for s in f1.node.body:
        if isinstance(s, ast.Assign) and isinstance(s.value, ast.List) and len(s.value.elts) == 1 \
                and isinstance(s.value.elts[0], ast.Name) and s.value.elts[0].id in f1.params:
            sname = s.targets[0].id
    if sname is None:
        raise AnalysisError('anchor vanished: language stack of get_txt_pos_ml')
    t1 = _stack_table(model, f1, tname, lambda e: isinstance(e, ast.Name) and e.id == sname, r)
    t2 = _stack_table(model, f2, tokpar, lambda e: unparse(e) == 'self.parser_lang_stack', r)
    if t1 is None or t2 is None:
        raise AnalysisError('anchor vanished: `if tok.back` structure of a language stack machine')
    # (c) a shortcut in front of the stack update ("the token switches to the language that is
    # current anyway: nothing to do") must not swallow a soft push - its closing token still pops
    for lp in loop[:1]:
        for st in lp.body:
            if not (isinstance(st, ast.If) and any(isinstance(x, ast.Continue) for x in st.body)):
                continue
            txt = unparse(st.test)
            if not (tname + '.lang' in txt and sname in txt):
                continue

            def evs(e):
                if isinstance(e, ast.BoolOp):
                    vals = [evs(x) for x in e.values]
                    return all(vals) if isinstance(e.op, ast.And) else any(vals)
                if isinstance(e, ast.UnaryOp) and isinstance(e.op, ast.Not):
                    return not evs(e.operand)
                if isinstance(e, ast.Attribute) and unparse(e.value) == tname and e.attr in ('back', 'hard'):
                    return False            # the soft push: neither back nor hard
                if isinstance(e, ast.Compare) and tname + '.lang' in unparse(e) and sname in unparse(e):
                    return isinstance(e.ops[0], ast.Eq)
                raise _Stop(unparse(e))
            try:
                taken = evs(st.test)
            except _Stop:
                r.undec(st, 'shortcut condition not interpreted: %s' % txt)
                r.instances += 1
                continue
            pushes = any(isinstance(c, ast.Call) and T.call_name(c) == 'append' and unparse(c.func.value) == sname
                         and not any(isinstance(a, ast.If) and (unparse(a.test).endswith('.back') or unparse(a.test).endswith('.hard'))
                                     and c in list(ast.walk(a)) and any(c in list(ast.walk(b)) for b in a.body)
                                     and not isinstance(a.test, ast.UnaryOp) for a in ast.walk(st) if a is not st)
                         for c in ast.walk(st))
            if taken and not pushes:
                r.fail(st, 'the splitter skips a language token that switches to the language already '
                       'on top of its stack, also when the token is a soft push: the matching closing '
                       'token still pops, and the text behind it is labelled with the outer language',
                       witness='\\begin{otherlanguage}{german} A \\foreignlanguage{german}{B} C D E F G H \\end{otherlanguage}')
            else:
                r.ok(st, 'the same-language shortcut keeps the stack balanced', nontrivial=True)
    for key in sorted(t1):
        back, hard, deep = key
        want = 'POP' if (back and deep) else ('NONE' if back else ('REPLACE' if hard else 'PUSH'))
        for name, tab, val_ok in (('splitter', t1, lambda v: v == tname + '.lang'),
                                  ('parser', t2, lambda v: v.replace(' ', '').replace('\n', '').endswith(',%s.lang)' % tokpar))):
            acts = tab[key]
            got = acts[0][0] if len(acts) == 1 else ('NONE' if not acts else '?')
            label = 'back=%s hard=%s deeper-than-1=%s' % key
            if got == '?' or any(a[0] == '?' for a in acts):
                r.undec(f1.node if name == 'splitter' else f2.node,
                        '%s stack: update for %s not interpreted: %s' % (name, label, acts))
                r.instances += 1
            elif got != want:
                r.fail(f1.node if name == 'splitter' else f2.node,
                       '%s stack: for %s the action is %s, expected %s' % (name, label, acts, want),
                       stmt='%s stack %s' % (name, label),
                       witness='nested \\foreignlanguage / otherlanguage sequences')
            elif want in ('PUSH', 'REPLACE') and not val_ok(acts[0][1]):
                r.fail(f1.node if name == 'splitter' else f2.node,
                       '%s stack records %s instead of the language code of the token: text '
                       'extracted later (footnotes) is labelled with another code'
                       % (name, acts[0][1]), stmt='%s stack value %s' % (name, label),
                       witness='\\selectlanguage{german} ... \\footnote{..}: footnote labelled de '
                               'instead of de-DE')
            else:
                r.ok_plain('%s stack, %s' % (name, label), want, nontrivial=True)
    lc = model.func('parameters.Parameters.lang_context_lang')
    rets = T.func_returns(lc)
    if rets and unparse(rets[0]).replace(' ', '') == 'self.parser_lang_stack[-1][1]':
        r.ok(lc.node, 'current language code = second component of the stack top')
    else:
        r.fail(lc.node, 'lang_context_lang does not return the language code of the stack top',
               stmt='lang_context_lang')
    return r


# ----------------------------------------------------------------------------- AC1 / AC2
def _has_action(model, e, fn, memo, depth=4):
    """does the token-list expression certainly contain an ActionToken / ParagraphToken or
    visible text (error mark)?"""
    if depth <= 0 or e is None:
        return False
    if isinstance(e, ast.List):
        return any(_is_action_ctor(model, x) for x in e.elts)
    if isinstance(e, ast.BinOp) and isinstance(e.op, ast.Add):
        return _has_action(model, e.left, fn, memo, depth) or _has_action(model, e.right, fn, memo, depth)
    if isinstance(e, ast.Call):
        rc = model.resolve_call(e)
        if rc and rc[0] == 'func':
            if rc[1].qname == 'utils.latex_error':
                return True
            return _func_has_action(model, rc[1], memo)
        return False
    if isinstance(e, ast.Name) and fn is not None:
        # every definition of the name starts with an action, and it is only extended
        rd = reachdefs(fn)
        ds = rd.defs_of(e)
        if not ds:
            return False
        for kind, name, node in ds:
            if kind == 'assign':
                if not _has_action(model, node, fn, memo, depth - 1):
                    return False
            elif kind == 'aug':
                # out += ...: keeps what it had; look at the definitions before
                target = node.target
                prev = rd.state_at(node).get(e.id, frozenset())
                for i in prev:
                    k2, n2, v2 = rd.deftab[i]
                    if k2 == 'assign' and _has_action(model, v2, fn, memo, depth - 1):
                        continue
                    if k2 == 'aug':
                        continue
                    return False
            else:
                return False
        return True
    if isinstance(e, ast.Tuple):
        return bool(e.elts) and _has_action(model, e.elts[0], fn, memo, depth)
    if isinstance(e, ast.IfExp):
        return _has_action(model, e.body, fn, memo, depth) and _has_action(model, e.orelse, fn, memo, depth)
    return False


def _is_action_ctor(model, x):
    if isinstance(x, ast.IfExp):
        return _is_action_ctor(model, x.body) and _is_action_ctor(model, x.orelse)
    if isinstance(x, ast.Call):
        c = T.token_ctor(model, x)
        if c is not None and c.qname in ('defs.ActionToken', 'defs.ParagraphToken'):
            return True
        if c is not None and c.qname == 'defs.TextToken':
            return True     # visible text: the construct does not vanish
    return False


def _func_has_action(model, f, memo):
    if f.qname in memo:
        return memo[f.qname]
    memo[f.qname] = False
    rets = T.func_returns(f)
    ok = bool(rets) and all(x is not None and _has_action(model, x, f, memo) for x in rets)
    memo[f.qname] = ok
    return ok


AC_FUNCS = ['parser.Parser.expand_macro', 'parser.Parser.expand_arguments',
            'parser.Parser.begin_environment', 'parser.Parser.end_environment',
            'parser.Parser.parse_def_macro', 'mathparser.MathParser.expand_inline_math',
            'mathparser.MathParser.expand_display_math']


def ac1(model):
    r = RuleResult('AC1', 'every construct that vanishes from the output leaves an action token '
                   '(or a paragraph token / visible text) on every path, so that the line-removal '
                   'pass can tell a line emptied by markup from a blank line of the source; '
                   'substituted macro arguments are bracketed by action tokens', floor=10)
    memo = {}
    for q in AC_FUNCS:
        f = model.func(q)
        for x in T.func_returns(f):
            if x is not None and _has_action(model, x, f, memo):
                r.ok(x, '%s returns a list with an action token on this path' % f.name, nontrivial=True)
            else:
                r.fail(x if x is not None else f.node,
                       '%s can return without an action token: a line holding only this '
                       'construct is not recognised as removable / a blank line is invented' % f.name,
                       witness='the construct alone on a line between two text lines')
    # expand_sequence: branches that emit directly
    es = model.func('parser.Parser.expand_sequence')
    for n in iter_scope(es.node):
        if isinstance(n, ast.If):
            t = unparse(n.test)
            if ("== '{'" in t or 'SpecialToken' in t or "'\\\\\\\\'" in t) and not isinstance(n._parent, ast.If) or \
                    ("== '{'" in t or 'SpecialToken' in t or "'\\\\\\\\'" in t):
                acts = [c for s in n.body for c in ast.walk(s) if _is_action_ctor(model, c)]
                if acts:
                    r.ok(n, 'branch %s emits an action token' % t[:40], nontrivial=True)
                else:
                    r.fail(n, 'the branch %s consumes markup without leaving an action token' % t[:40])
    # generate_replacements: arguments bracketed
    g = model.func('parser.Parser.generate_replacements')
    for n in iter_scope(g.node):
        if isinstance(n, ast.AugAssign) and isinstance(n.value, ast.Name):
            blk = _block(n)
            i = blk.index(n)
            before = any(_is_action_ctor(model, c) for s in blk[:i] for c in ast.walk(s))
            after = any(_is_action_ctor(model, c) for s in blk[i + 1:] for c in ast.walk(s))
            if before and after:
                r.ok(n, 'substituted argument is bracketed by action tokens', nontrivial=True)
            else:
                r.fail(n, 'a substituted macro argument is inserted without action tokens around '
                       'it: the line with the closing brace of the argument turns into a blank line',
                       witness='\\important{<newline>text<newline>}<newline>more text')
    return r


def _block(stmt):
    p = stmt._parent
    for field in ('body', 'orelse', 'finalbody'):
        seq = getattr(p, field, None)
        if isinstance(seq, list) and stmt in seq:
            return seq
    return [stmt]


def ac2(model):
    r = RuleResult('AC2', 'the set of token classes skipped as space (Buffer.is_space) contains '
                   'SpaceToken, CommentToken, ActionToken, VoidToken, LanguageToken and never '
                   'ParagraphToken: a blank line ends the search for an argument', floor=2)
    f = model.func('scanner.Buffer.is_space')
    names = {n.attr if isinstance(n, ast.Attribute) else n.id for n in ast.walk(f.node)
             if isinstance(n, (ast.Attribute, ast.Name)) and
             (n.attr if isinstance(n, ast.Attribute) else n.id).endswith('Token')}
    if 'ParagraphToken' in names:
        r.fail(f.node, 'ParagraphToken is skipped as space: a macro reads its argument across a '
               'blank line and a paragraph break is lost', stmt='is_space contains ParagraphToken')
    else:
        r.ok(f.node, 'ParagraphToken is not skipped as space', nontrivial=True)
    for need in ('SpaceToken', 'ActionToken', 'CommentToken'):
        if need in names:
            r.ok(f.node, '%s is skipped as space' % need, sample=False)
        else:
            r.fail(f.node, '%s is no longer skipped as space' % need, stmt='is_space lacks ' + need)
    return r


# ----------------------------------------------------------------------------- LN1
def ln1(model):
    r = RuleResult('LN1', 'line structure is defined by "\\n" alone wherever line numbers are '
                   'computed (count / rfind / finditer on "\\n"): str.splitlines() also splits at '
                   '\\r, \\f, \\x1c-\\x1e, \\x85, U+2028/9 and would disagree with every other line '
                   'computation', floor=3)
    funcs = ['tex2txt.get_line_starts', 'tex2txt.translate_numbers', 'shell.genhtml.generate_html',
             'shell.genhtml.add_line_numbers', 'shell.gentext.output_text_report',
             'shell.genjson.output_json', 'shell.genxml.output_xml_report', 'utils.latex_error',
             'tex2txt.read_replacements', 'tex2txt.read_definitions', 'utils.replace_phrases']
    for q in funcs:
        if not model.has_func(q):
            continue
        f = model.func(q)
        bad = [n for n in ast.walk(f.node) if isinstance(n, ast.Call) and T.call_name(n) == 'splitlines']
        for n in bad:
            r.fail(n, 'splitlines() in a line computation: a form feed, \\r or U+2028 in the source '
                   'shifts every later line number', witness='a source file containing a form feed')
        if not bad:
            r.ok(f.node, '%s does not use splitlines()' % f.name, sample=False)
    gl = model.func('tex2txt.get_line_starts')
    if any(isinstance(n, ast.Constant) and n.value in ('\n', r'\n') for n in ast.walk(gl.node)):
        r.ok(gl.node, 'get_line_starts searches for "\\n"', nontrivial=True)
    else:
        r.fail(gl.node, 'get_line_starts does not look for "\\n"', stmt='get_line_starts')
    return r


# ----------------------------------------------------------------------------- IX7
def ix7(model):
    r = RuleResult('IX7', 'item-label generators never end: every generator function registered '
                   'as `items=` of an environment, and the default label generator of the parser, '
                   'yields only from inside `while True` loops (expand_item calls next() on it '
                   'without a default)', floor=3)
    cg = callgraph(model)
    gens = set(cg.registry['items'])
    p = model.func('parser.Parser.__init__')
    for f in p.nested.values():
        if any(isinstance(n, (ast.Yield, ast.YieldFrom)) for n in iter_scope(f.node)):
            gens.add(f)
    if not gens:
        raise AnalysisError('anchor vanished: item label generators')
    for f in sorted(gens, key=lambda x: x.qname):
        ys = [n for n in iter_scope(f.node) if isinstance(n, (ast.Yield, ast.YieldFrom))]
        if not ys:
            r.undec(f.node, 'label function is not a generator')
            continue
        for y in ys:
            q = y._parent
            inf = False
            while q is not None and q is not f.node:
                if isinstance(q, (ast.While, ast.For)) and _infinite_loop(model, q):
                    inf = True
                if isinstance(q, ast.For) and not inf:
                    # a finite loop around the yield is fine only inside an infinite one
                    pass
                q = q._parent
            if inf and _all_paths_loop(f, model):
                r.ok(y, '%s yields inside `while True`' % f.name, nontrivial=True)
            else:
                r.fail(y, 'the label generator %s can be exhausted: next() in expand_item then '
                       'raises StopIteration' % f.name,
                       witness='more \\item\'s in one list than the generator has labels')
    # the consumer has no default
    return r


def _infinite_loop(model, q):
    """`while True` without break, or `for x in itertools.count(..) / itertools.cycle(<non-empty>)`
    / itertools.repeat(x) without break"""
    if any(isinstance(b, ast.Break) for b in ast.walk(q)):
        return False
    if isinstance(q, ast.While):
        return isinstance(q.test, ast.Constant) and q.test.value is True
    if isinstance(q, ast.For) and isinstance(q.iter, ast.Call):
        rc = model.resolve_call(q.iter)
        name = rc[1] if rc and rc[0] == 'ext' else ''
        if name == 'itertools.count':
            return True
        if name == 'itertools.repeat' and len(q.iter.args) == 1:
            return True
        if name == 'itertools.cycle' and q.iter.args:
            a = q.iter.args[0]
            if isinstance(a, ast.Constant) and isinstance(a.value, str) and a.value:
                return True
            if isinstance(a, (ast.List, ast.Tuple)) and a.elts:
                return True
            if isinstance(a, ast.Attribute) and unparse(a) in ('string.ascii_lowercase', 'string.ascii_uppercase',
                                                              'string.ascii_letters', 'string.digits'):
                return True
    return False


def _all_paths_loop(f, model=None):
    """every top-level path of the generator ends in an infinite loop (no fall-through)"""
    def ends(stmts):
        if not stmts:
            return False
        last = stmts[-1]
        if isinstance(last, ast.While) and isinstance(last.test, ast.Constant) and last.test.value is True:
            return True
        if model is not None and isinstance(last, (ast.While, ast.For)) and _infinite_loop(model, last):
            return True
        if isinstance(last, ast.If):
            return ends(last.body) and ends(last.orelse)
        return False
    return ends(f.node.body)


# ----------------------------------------------------------------------------- IX8
def ix8(model):
    import re._parser as sre_parse
    import re._constants as sre_c
    r = RuleResult('IX8', 'numeric conversions cannot raise: int()/float() of document text is '
                   'guarded by isdecimal(), lies in a try, or converts a regex group every '
                   'alternative of which contains at least one digit', floor=3)

    def min_digits(items):
        n = 0
        for op, av in items:
            if op is sre_c.IN and any(o is sre_c.CATEGORY and a is sre_c.CATEGORY_DIGIT for o, a in av):
                n += 1
            elif op in (sre_c.MAX_REPEAT, sre_c.MIN_REPEAT):
                lo, hi, sub = av
                n += lo * min_digits(list(sub))
            elif op is sre_c.SUBPATTERN:
                n += min_digits(list(av[3]))
            elif op is sre_c.BRANCH:
                n += min(min_digits(list(x)) for x in av[1])
        return n

    def group_items(tree, k):
        for op, av in tree:
            if op is sre_c.SUBPATTERN:
                if av[0] == k:
                    return list(av[3])
                g = group_items(list(av[3]), k)
                if g is not None:
                    return g
            elif op is sre_c.BRANCH:
                for x in av[1]:
                    g = group_items(list(x), k)
                    if g is not None:
                        return g
            elif op in (sre_c.MAX_REPEAT, sre_c.MIN_REPEAT):
                g = group_items(list(av[2]), k)
                if g is not None:
                    return g
        return None

    for f in model.all_funcs():
        if isinstance(f.node, ast.Lambda) or f.mod.short.startswith('shell') or f.mod.short == 'tex2txt':
            continue
        for n in iter_scope(f.node):
            if not (isinstance(n, ast.Call) and isinstance(n.func, ast.Name) and n.func.id in ('int', 'float')
                    and n.args):
                continue
            a = n.args[0]
            # inside try?
            q, c = n._parent, n
            in_try = False
            while q is not None and q is not f.node:
                if isinstance(q, ast.Try) and any(c is s for s in q.body):
                    in_try = True
                c, q = q, q._parent
            if in_try:
                r.ok(n, 'conversion inside try', nontrivial=True)
                continue
            srcs = [x for x in ast.walk(a) if isinstance(x, ast.Name)]
            if any(guards.has_fact(n, lambda e, t, v=v: t and isinstance(e, ast.Call)
                                   and T.call_name(e) == 'isdecimal' and unparse(e.func.value) == v.id)
                   for v in srcs):
                # since Python 3.11 int() of more than 4300 digits raises ValueError: the length must be bounded
                def short(e, t, names={v.id for v in srcs}):
                    if not (isinstance(e, ast.Compare) and len(e.ops) == 1 and isinstance(e.left, ast.Call)
                            and getattr(e.left.func, 'id', '') == 'len' and e.left.args
                            and isinstance(e.left.args[0], ast.Name) and e.left.args[0].id in names
                            and isinstance(e.comparators[0], ast.Constant) and isinstance(e.comparators[0].value, int)):
                        return False
                    k, op = e.comparators[0].value, e.ops[0]
                    if t:
                        return (isinstance(op, ast.Lt) and k <= 4301) or (isinstance(op, ast.LtE) and k <= 4300) \
                            or (isinstance(op, ast.Eq) and k <= 4300)
                    return (isinstance(op, ast.Gt) and k <= 4300) or (isinstance(op, ast.GtE) and k <= 4301)
                if guards.has_fact(n, short):
                    r.ok(n, 'guarded by isdecimal() and a bound on the number of digits', nontrivial=True)
                else:
                    r.fail(n, '%s() is guarded by isdecimal() only: a number of more than 4300 digits in the '
                           'document raises ValueError (integer string conversion limit of Python >= 3.11)'
                           % n.func.id, witness='\\newcommand{\\x}[' + '1 repeated 5000 times' + ']{a}')
                continue
            if isinstance(a, ast.Subscript) and guards.has_fact(
                    n, lambda e, t: t and isinstance(e, ast.Call) and T.call_name(e) == 'isdecimal'):
                r.ok(n, 'single character tested with isdecimal()', nontrivial=True)
                continue
            weak = [e for e, t in guards.facts(n) if t and isinstance(e, ast.Call)
                    and T.call_name(e) in ('isdigit', 'isnumeric', 'isalnum')]
            if weak:
                r.fail(n, '%s() is guarded by %s(), which also accepts characters that int() rejects '
                       '(superscript and circled digits): ValueError' % (n.func.id, T.call_name(weak[0])),
                       witness='#\u00b2 in the text')
                continue
            grp = [x for x in ast.walk(a) if isinstance(x, ast.Call) and T.call_name(x) == 'group'
                   and x.args and isinstance(x.args[0], ast.Constant)]
            if grp:
                k = grp[0].args[0].value
                mvar = grp[0].func.value
                pat = None
                for v in T.resolve_local(model, mvar) if isinstance(mvar, ast.Name) else []:
                    if isinstance(v, ast.Call) and isinstance(v.func, ast.Attribute) \
                            and isinstance(v.func.value, ast.Name):
                        g = f.mod.globals.get(v.func.value.id)
                        if g and isinstance(g[0], ast.Call) and g[0].args and isinstance(g[0].args[0], ast.Constant):
                            pat = g[0].args[0].value
                if pat is None:
                    r.undec(n, 'pattern of the converted group not found')
                    continue
                tree = sre_parse.parse(pat)
                items = group_items(list(tree), k)
                if items is not None and min_digits(items) >= 1:
                    r.ok(n, 'group %d of %r always contains a digit' % (k, pat), nontrivial=True)
                else:
                    r.fail(n, 'group %d of the pattern %r can match text without a digit: %s() '
                           'raises ValueError' % (k, pat, n.func.id),
                           witness='\\hspace{.}')
                continue
            if isinstance(a, (ast.Constant, ast.BinOp)) or any(isinstance(x, ast.Call) and T.call_name(x) in ('start', 'end')
                                                                for x in ast.walk(a)):
                r.ok(n, 'conversion of a number', sample=False)
                continue
            # text of the document?
            doc = False
            for v in srcs:
                for val in T.resolve_local(model, v):
                    if isinstance(val, ast.Call) and T.call_name(val) in (
                            'get_text_expanded', 'get_text_direct', 'strip', 'group'):
                        doc = True
                    if isinstance(val, ast.Attribute) and val.attr == 'txt':
                        doc = True
            if doc:
                r.fail(n, '%s() is applied to text of the document without isdecimal() / try: '
                       'ValueError for non-numeric text' % n.func.id,
                       witness='\\newcommand{\\x}[abc]{..}')
            else:
                r.undec(n, 'conversion %s not classified' % unparse(n)[:40])
    return r


# ----------------------------------------------------------------------------- IX9
def ix9(model):
    r = RuleResult('IX9', 'options that default to None (Options(lang, repl, dcls, pack, extr)) are '
                   'used in tex2txt() only under a truth test of themselves, as `opt or default`, '
                   'or are handed to a function that tests its parameter before using it', floor=5)
    oc = model.func('tex2txt.Options.__init__')
    a = oc.node.args
    names = [x.arg for x in a.args]
    defaults = dict(zip(names[len(names) - len(a.defaults):], a.defaults))
    nullable = {k for k, v in defaults.items() if isinstance(v, ast.Constant) and v.value is None}
    # normalised in __init__ (`if not self.x: self.x = ...`)
    for n in iter_scope(oc.node):
        if isinstance(n, ast.If) and isinstance(n.test, ast.UnaryOp) and isinstance(n.test.operand, ast.Attribute):
            nullable.discard(n.test.operand.attr)
    f = model.func('tex2txt.tex2txt')
    opar = f.params[1]
    for n in iter_scope(f.node):
        if not (isinstance(n, ast.Attribute) and isinstance(n.value, ast.Name) and n.value.id == opar
                and n.attr in nullable and isinstance(n.ctx, ast.Load)):
            continue
        p = n._parent
        if isinstance(p, ast.BoolOp) and isinstance(p.op, ast.Or) and p.values[0] is n and len(p.values) > 1:
            r.ok(n, '%s or <default>' % unparse(n), nontrivial=True)
            continue
        if isinstance(p, (ast.If, ast.IfExp)) and p.test is n:
            r.ok(n, 'truth test of %s' % unparse(n))
            continue
        if isinstance(p, ast.BoolOp) and isinstance(p.op, ast.And) and p.values[0] is n:
            r.ok(n, 'truth test of %s' % unparse(n))
            continue
        if guards.has_fact(n, lambda e, t: t and unparse(e) == unparse(n)):
            r.ok(n, 'used under a truth test of itself', nontrivial=True)
            continue
        if isinstance(p, ast.Call) or (isinstance(p, ast.keyword)):
            call = p if isinstance(p, ast.Call) else p._parent
            rc = model.resolve_call(call)
            tgt = None
            if rc and rc[0] == 'func':
                tgt = rc[1]
            elif rc and rc[0] == 'class':
                tgt = model.find_method(rc[1], '__init__')
            if tgt is not None:
                off = 1 if tgt.cls is not None else 0
                if isinstance(p, ast.keyword):
                    par = p.arg
                else:
                    i = call.args.index(n)
                    par = tgt.params[i + off] if i + off < len(tgt.params) else None
                if par and _param_tested_first(tgt, par):
                    r.ok(n, '%s tests its parameter %s before use' % (tgt.name, par), nontrivial=True)
                    continue
            r.fail(n, '%s may be None and is passed on without a test' % unparse(n),
                   witness='Options() without this option')
            continue
        r.fail(n, '%s may be None (the option was not given) and is used without a truth test '
               'or default' % unparse(n),
               witness='multi_language=True with Options(lang=None)')
    return r


def _param_tested_first(fn, par):
    """the first use of the parameter in the function body is a truth test (or `par or ..`)"""
    for n in ast.walk(fn.node):
        pass
    uses = [n for n in iter_scope(fn.node) if isinstance(n, ast.Name) and n.id == par
            and isinstance(n.ctx, ast.Load)]
    if not uses:
        return True
    uses.sort(key=lambda x: (x.lineno, x.col_offset))
    u = uses[0]
    p = u._parent
    if isinstance(p, (ast.If, ast.IfExp)) and p.test is u:
        return True
    if isinstance(p, ast.UnaryOp) and isinstance(p.op, ast.Not):
        return True
    if isinstance(p, ast.BoolOp) and p.values[0] is u:
        return True
    return False


# ----------------------------------------------------------------------------- PG1
def pg1(model):
    r = RuleResult('PG1', 'progress of the expansion loops: in expand_sequence and '
                   'expand_math_section every branch of the dispatch either reaches the buf.next() '
                   'at the end of the loop body, or continues / breaks / returns after a statement '
                   'that consumes input (buf.next(), or a call that is handed the buffer)', floor=20)
    for q in ('parser.Parser.expand_sequence', 'mathparser.MathParser.expand_math_section'):
        f = model.func(q)
        loops = [s for s in f.node.body if isinstance(s, ast.While)]
        if not loops:
            raise AnalysisError('anchor vanished: main loop of ' + q)
        loop = loops[0]
        bufname = f.params[1]
        body = loop.body
        # the trailing consume
        tail = body[-1]
        tail_consumes = _consumes(tail, bufname)
        chain = [s for s in body if isinstance(s, ast.If)]

        def walk_branches(stmts, path):
            """yield (branch statements, exits_loop_iteration) for every leaf of if/elif chains"""
            for s in stmts:
                if isinstance(s, ast.If):
                    yield from walk_branches(s.body, path + [s])
                    if s.orelse:
                        yield from walk_branches(s.orelse, path + [s])
            if stmts and not isinstance(stmts[-1], ast.If):
                yield stmts
            elif stmts and isinstance(stmts[-1], ast.If) and not stmts[-1].orelse:
                yield stmts
        seen = set()
        for top in chain:
            for br in walk_branches([top], []):
                key = id(br[0])
                if key in seen or br is body:
                    continue
                seen.add(key)
                last = br[-1]
                leaves = isinstance(last, (ast.Continue, ast.Break, ast.Return)) or \
                    (isinstance(last, ast.If))
                if isinstance(last, ast.If):
                    continue
                if isinstance(last, (ast.Break, ast.Return)):
                    r.ok(last, 'branch leaves the loop', sample=False)
                    continue
                if isinstance(last, ast.Continue):
                    cons = any(_consumes(s, bufname) for s in br[:-1])
                    if cons:
                        r.ok(last, 'branch consumes input before `continue`', nontrivial=True, sample=False)
                    else:
                        r.fail(last, 'this branch of %s continues without consuming input: the same '
                               'token is looked at again and again' % f.name,
                               witness='a document that reaches this branch: the filter hangs')
                else:
                    if tail_consumes:
                        r.ok(last, 'branch falls through to the buf.next() at the end of the loop body',
                             sample=False)
                    else:
                        r.fail(tail, 'the loop body of %s no longer ends with buf.next()' % f.name)
    return r


def _consumes(stmt, bufname):
    for n in ast.walk(stmt):
        if isinstance(n, ast.Call):
            if isinstance(n.func, ast.Attribute) and n.func.attr in ('next', 'skip_space') \
                    and unparse(n.func.value) == bufname:
                return True
            if any(isinstance(a, ast.Name) and a.id == bufname for a in n.args):
                return True
    return False


# ----------------------------------------------------------------------------- IX10
def ix10(model):
    r = RuleResult('IX10', 'values of a key-value list may be None (key given without "="): a '
                   'value obtained with .get(key, default) / [key] from parse_keyvals_dict is '
                   'normalised (`or default`) or tested before it is used as a token list; a '
                   'number taken from the document bounds-checked before it multiplies a string',
                   floor=2)
    for f in model.all_funcs():
        if isinstance(f.node, ast.Lambda) or f.mod.short.startswith('shell'):
            continue
        for n in iter_scope(f.node):
            # .get() on the result of parse_keyvals_dict
            if isinstance(n, ast.Call) and isinstance(n.func, ast.Attribute) and n.func.attr == 'get' \
                    and isinstance(n.func.value, ast.Call) and T.call_name(n.func.value) == 'parse_keyvals_dict':
                p = n._parent
                if isinstance(p, ast.BoolOp) and isinstance(p.op, ast.Or) and p.values[0] is n:
                    r.ok(n, 'None value of a key without "=" is replaced by a default', nontrivial=True)
                elif isinstance(p, ast.Assign) and isinstance(p.targets[0], ast.Name) and guards_any_use_tested(f, p.targets[0].id, p):
                    r.ok(n, 'value is tested before use', nontrivial=True)
                else:
                    r.fail(n, 'the value of a key-value entry may be None (key without "=") and is '
                           'used as a token list', witness='\\newglossaryentry{a}{description}')
            # 'A' * n with n from the document
            if isinstance(n, ast.BinOp) and isinstance(n.op, ast.Mult):
                for a, b in ((n.left, n.right), (n.right, n.left)):
                    if isinstance(a, ast.Constant) and isinstance(a.value, str) and a.value:
                        names = [x for x in ast.walk(b) if isinstance(x, ast.Name)]
                        doc = [x for x in names if any(
                            isinstance(v, (ast.IfExp, ast.Call)) and any(
                                isinstance(c, ast.Call) and getattr(c.func, 'id', '') == 'int' for c in ast.walk(v))
                            for v in T.resolve_local(model, x))]
                        if not doc:
                            continue
                        v = doc[0].id
                        bounded = any(isinstance(d, ast.If) and any(
                            isinstance(c, ast.Compare) and unparse(c.left) == v
                            and isinstance(c.ops[0], (ast.Gt, ast.GtE)) for c in ast.walk(d.test))
                            for d in dominating_stmts(n))
                        if bounded:
                            r.ok(n, 'the repeat count %s is bounds-checked before' % v, nontrivial=True)
                        else:
                            r.fail(n, 'a string is repeated %s times, a number read from the document '
                                   'without an upper bound: MemoryError' % v,
                                   witness='\\newcommand{\\x}[99999999999]{}')
    return r


def guards_any_use_tested(fn, name, after):
    uses = [n for n in iter_scope(fn.node) if isinstance(n, ast.Name) and n.id == name
            and isinstance(n.ctx, ast.Load) and n.lineno > after.lineno]
    if not uses:
        return True
    u = uses[0]
    p = u._parent
    return (isinstance(p, (ast.If, ast.IfExp)) and p.test is u) or \
        (isinstance(p, ast.BoolOp) and p.values[0] is u) or \
        (isinstance(p, ast.UnaryOp) and isinstance(p.op, ast.Not))
