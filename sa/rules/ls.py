"""LS1-LS3, AB3: lock step of text and position list (DESIGN.md 3.2)."""
import ast

from ..model import AnalysisError, unparse, iter_scope
from ..report import RuleResult
from ..affine import Aff
from ..symlen import SymEval, Seq, Tup, Int, Obj, State, fresh
from .. import tok as T

# functions whose result is a (text, positions) pair of equal length: verified below in
# this order, then used as summaries at call sites
PAIR_FUNCS = ['utils.get_txt_pos', 'utils.substitute', 'utils.replace_phrases']


def _pair_summary(verified):
    def summ(ev, call, r, args, st):
        if r and r[0] == 'func' and r[1].qname in verified:
            q = r[1].qname
            if q in ('utils.substitute', 'utils.replace_phrases'):
                # precondition: the (text, positions) arguments have equal length
                a, b = (args + [None, None])[:2]
                la = ev.length(a, st) if a is not None else None
                lb = ev.length(b, st) if b is not None else None
                ok = la is not None and lb is not None and st.facts.prove_eq(la, lb)
                ev.oblig[id(call)] = (call, 'pre', ok, 'arguments of %s have equal length' % r[1].name)
            n = Aff.atom(('len', fresh('pair')))
            return Tup([Seq(n, 'str'), Seq(n, 'list')])
        return None
    return summ


class PairEval(SymEval):
    """SymEval that assumes len(params[i]) == len(params[j]) for declared parameter pairs"""
    def __init__(self, model, func, param_pairs=(), field_pairs=(), **kw):
        self.param_pairs = param_pairs
        self.field_pairs = field_pairs
        super().__init__(model, func, **kw)

    def initial(self):
        st = State()
        off = 1 if self.func.cls is not None and self.func.params[:1] == ['self'] else 0
        for i, j in self.param_pairs:
            n = Aff.atom(('len', 'param-pair-%d-%d' % (i, j)))
            st.vars[self.func.params[i + off]] = Seq(n, 'str')
            st.vars[self.func.params[j + off]] = Seq(n, 'list')
        return st


def _check_return_pairs(ev, r, idx=(0, 1), what='returned (text, positions)'):
    n = 0
    for node, val, st in ev.ret_states:
        if node is None or val is None:
            continue
        if not isinstance(val, Tup) or len(val.items) <= max(idx):
            continue
        a, b = val.items[idx[0]], val.items[idx[1]]
        la, lb = ev.length(a, st), ev.length(b, st)
        n += 1
        if la is not None and lb is not None and st.facts.prove_eq(la, lb):
            r.ok(node, '%s: len = %r on both sides' % (what, la), nontrivial=True)
        else:
            r.fail(node, '%s may differ in length: %r vs %r' % (what, la, lb))
    return n


def _oblig(ev, r):
    for node, kind, ok, text in ev.oblig.values():
        if ok:
            r.ok(node, text, nontrivial=True)
        else:
            r.fail(node, 'cannot establish: ' + text)


def ls1(model):
    r = RuleResult('LS1', 'text and position list are extended in lock step: on every path '
                   'through every builder the symbolic length (affine term over len() atoms) '
                   'added to the text equals the length added to the positions; loop '
                   'invariants len(text) == len(positions) are found and checked inductively',
                   floor=5)
    verified = set()
    # --- utils.get_txt_pos
    f = model.func('utils.get_txt_pos')
    ev = PairEval(model, f)
    ev.run(f.body, ev.initial())
    if _check_return_pairs(ev, r) == 0:
        r.fail(f.node, 'get_txt_pos no longer returns a (text, positions) pair')
    verified.add(f.qname)
    # --- utils.substitute
    f = model.func('utils.substitute')
    ev = PairEval(model, f, param_pairs=[(0, 1)])
    ev.run(f.body, ev.initial())
    if _check_return_pairs(ev, r) == 0:
        r.fail(f.node, 'substitute no longer returns a (text, positions) pair')
    verified.add(f.qname)
    # --- utils.replace_phrases
    f = model.func('utils.replace_phrases')
    ev = PairEval(model, f, param_pairs=[(0, 1)], call_summary=_pair_summary(verified))
    ev.run(f.body, ev.initial())
    if _check_return_pairs(ev, r) == 0:
        r.fail(f.node, 'replace_phrases no longer returns a (text, positions) pair')
    _oblig(ev, r)
    verified.add(f.qname)
    # --- tex2txt.tex2txt (single-language return, --unkn branch, phrase replacement)
    f = model.inl().func('tex2txt.tex2txt')
    ev = MLEval(model.inl(), f, call_summary=_ml_summary(verified))
    ev.run(f.body, ev.initial())
    if _check_return_pairs(ev, r, what='result of tex2txt (plain text, position map)') == 0:
        r.fail(f.node, 'tex2txt no longer returns a (text, positions) pair')
    _oblig(ev, r)
    return r


# ------------------------------------------------------------------ multi-language parts
class PairColl:
    """a collection (dict of lists / list) of [text, positions] pairs of equal length;
    view = 'values' / 'items' for the corresponding views of a dict of lists"""
    def __init__(self, depth, view=None):
        self.depth = depth
        self.view = view

    def __eq__(self, o):
        return isinstance(o, PairColl) and o.depth == self.depth and o.view == self.view


class MLEval(PairEval):
    """adds the shape 'collection of equal-length pairs' (result of get_txt_pos_ml,
    plain_map of the shell)"""
    def pair(self):
        n = Aff.atom(('len', fresh('part')))
        return Tup([Seq(n, 'str'), Seq(n, 'list')])

    def ev_Subscript(self, e, st):
        if unparse(e) not in st.vars:
            base = self.ev(e.value, st)
            if isinstance(base, PairColl) and isinstance(e.slice, ast.Slice):
                return base
            if isinstance(base, PairColl):
                return PairColl(base.depth - 1) if base.depth > 1 else self.pair()
        return super().ev_Subscript(e, st)

    def ev_Call(self, e, st):
        f = e.func
        if isinstance(f, ast.Attribute) and f.attr in ('values', 'items', 'get') \
                and unparse(f.value) not in ('self',):
            base = self.ev(f.value, st)
            if isinstance(base, PairColl) and base.depth == 2 and base.view is None:
                if f.attr == 'values' and not e.args:
                    return PairColl(2, 'values')
                if f.attr == 'items' and not e.args:
                    return PairColl(2, 'items')
                if f.attr == 'get' and e.args:
                    # the default has to be an empty collection to keep the shape
                    if len(e.args) == 1 or (isinstance(e.args[1], (ast.List, ast.Tuple)) and not e.args[1].elts):
                        return PairColl(1)
        return super().ev_Call(e, st)

    def store(self, target, val, st):
        # part[:] = (text, positions): the pair object is replaced as a whole
        if isinstance(target, ast.Subscript) and isinstance(target.slice, ast.Slice) and target.slice.lower is None \
                and target.slice.upper is None and isinstance(target.value, ast.Name) \
                and isinstance(val, Tup) and len(val.items) == 2:
            b = target.value.id
            for k in [k for k in st.vars if k.startswith(b + '[')]:
                del st.vars[k]
            st.vars[b + '[0]'] = val.items[0]
            st.vars[b + '[1]'] = val.items[1]
            return
        return super().store(target, val, st)

    def for_item(self, s, itv, st):
        if isinstance(itv, PairColl) and itv.view == 'values':
            return PairColl(1)
        if isinstance(itv, PairColl) and itv.view == 'items':
            return Tup([Obj(fresh('key')), PairColl(1)])
        if isinstance(itv, PairColl):
            if itv.depth >= 2 and isinstance(s.target, ast.Name) and itv.depth == 2:
                return Obj(fresh('key'))       # iterating a dict yields keys
            return PairColl(itv.depth - 1) if itv.depth > 1 else self.pair()
        return None

    def join_val(self, a, b):
        if isinstance(a, PairColl) and a == b:
            return a
        return super().join_val(a, b)

    def ev_Dict(self, e, st):
        ok = bool(e.values)
        for v in e.values:
            val = self.ev(v, st)
            good = False
            if isinstance(val, Tup) and val.items:
                good = True
                for it in val.items:
                    if not (isinstance(it, Tup) and len(it.items) == 2):
                        good = False
                        break
                    la, lb = self.length(it.items[0], st), self.length(it.items[1], st)
                    if la is None or lb is None or not st.facts.prove_eq(la, lb):
                        good = False
                        self.oblig[id(v)] = (v, 'pair', False, 'text and map of the part have equal length')
                    else:
                        self.oblig[id(v)] = (v, 'pair', True, 'text and map of the part have equal length (%r)' % la)
            ok = ok and good
        return PairColl(2) if ok else Obj(fresh('dict'))


def _ml_summary(verified):
    base = _pair_summary(verified)

    def summ(ev, call, r, args, st):
        if r and r[0] == 'func' and r[1].qname == 'tex2txt.tex2txt':
            ml = [k for k in call.keywords if k.arg == 'multi_language']
            if ml and isinstance(ml[0].value, ast.Constant) and ml[0].value.value is True:
                return PairColl(2)
            if ml or len(call.args) > 2:
                return Obj(fresh('tex2txt'))
            n = Aff.atom(('len', fresh('pair')))
            return Tup([Seq(n, 'str'), Seq(n, 'list')])
        if r and r[0] == 'func' and r[1].qname == 'utils.get_txt_pos_ml':
            return PairColl(2)
        return base(ev, call, r, args, st)
    return summ


def _pair_var_hook(ev, r):
    """at every loop back edge: a loop variable holding a [text, map] pair still has equal
    lengths after the stores into it"""
    def hook(loop, st):
        if not isinstance(loop, ast.For) or not isinstance(loop.target, ast.Name):
            return
        v = loop.target.id
        a, b = st.vars.get(v + '[0]'), st.vars.get(v + '[1]')
        if a is None and b is None:
            return
        base = st.vars.get(v)
        if a is None and isinstance(base, Tup):
            a = base.items[0]
        if b is None and isinstance(base, Tup):
            b = base.items[1]
        la = ev.length(a, st) if a is not None else None
        lb = ev.length(b, st) if b is not None else None
        ok = la is not None and lb is not None and st.facts.prove_eq(la, lb)
        prev = ev.oblig.get(('hook', id(loop)))
        if prev is not None and not prev[2]:
            ok = False      # one path through the loop body that breaks the pair is enough
        ev.oblig[('hook', id(loop))] = (loop, 'inv', ok,
                                        'after the loop body %s[0] and %s[1] have equal length' % (v, v))
    return hook


def ls1_ml(model):
    r = RuleResult('LS1m', 'lock step in multi-language mode: every LanguageSection is built '
                   'from and keeps a (text, positions) pair of equal length through joins and '
                   'placeholder insertion; the per-part post-processing in tex2txt keeps it',
                   floor=6)
    verified = set(PAIR_FUNCS)
    fields = ('txt', 'pos')
    # --- utils.ml_append_placeholder and utils.get_txt_pos_ml: class invariant of LanguageSection
    for q in ('utils.ml_append_placeholder', 'utils.get_txt_pos_ml'):
        f = model.func(q)
        ev = MLEval(model, f, pair_fields=fields, call_summary=_ml_summary(verified))
        checked = []

        def check_pairs(node, st, where, ev=ev, checked=checked):
            bases = {k[:-4] for k in st.vars if k.endswith('.txt') or k.endswith('.pos')}
            for b in sorted(bases):
                ta = ast.parse(b + '.txt', mode='eval').body
                pa = ast.parse(b + '.pos', mode='eval').body
                la = ev.length(ev.ev(ta, st), st)
                lb = ev.length(ev.ev(pa, st), st)
                ok = la is not None and lb is not None and st.facts.prove_eq(la, lb)
                ev.oblig[(where, id(node), b)] = (
                    node, 'inv', ok, 'len(%s.txt) == len(%s.pos) %s' % (b, b, where))
        ev.backedge_hooks.append(lambda loop, st: check_pairs(loop, st, 'at the loop back edge'))
        ev.run(f.body, ev.initial())
        for node, val, st in ev.ret_states:
            n = node if node is not None else f.node
            check_pairs(n, st, 'at return')
        # constructor calls LanguageSection(.., txt, pos)
        _oblig(ev, r)
        cls = model.cls('utils.LanguageSection')
        params = T.ctor_params(model, cls)[0]
    # constructor arguments: evaluate inside get_txt_pos_ml
    f = model.func('utils.get_txt_pos_ml')

    class CtorEval(MLEval):
        def ev_Call(self, e, st):
            rr = self.model.resolve_call(e)
            if rr and rr[0] == 'class' and rr[1].qname == 'utils.LanguageSection':
                a = T.ctor_args(self.model, e, rr[1])
                ta, pa = a.get('txt'), a.get('pos')
                if ta is not None and pa is not None:
                    la = self.length(self.ev(ta, st), st)
                    lb = self.length(self.ev(pa, st), st)
                    ok = la is not None and lb is not None and st.facts.prove_eq(la, lb)
                    self.oblig[id(e)] = (e, 'ctor', ok, 'LanguageSection is created from a pair '
                                         'of equal length (%r)' % la)
            return super().ev_Call(e, st)

        def ev_List(self, e, st):
            if len(e.elts) == 2 and all(isinstance(x, ast.Attribute) for x in e.elts) \
                    and {x.attr for x in e.elts} & {'txt', 'pos'}:
                la = self.length(self.ev(e.elts[0], st), st)
                lb = self.length(self.ev(e.elts[1], st), st)
                ok = (e.elts[0].attr, e.elts[1].attr) == ('txt', 'pos') and la is not None \
                    and lb is not None and st.facts.prove_eq(la, lb)
                self.oblig[id(e)] = (e, 'result', ok, 'result part is [X.txt, X.pos] of one section')
            return super().ev_List(e, st)
    ev = CtorEval(model, f, pair_fields=fields, call_summary=_ml_summary(verified))
    ev.run(f.body, ev.initial())
    _oblig(ev, r)
    # --- tex2txt.tex2txt, multi-language branch
    f = model.inl().func('tex2txt.tex2txt')
    ev = MLEval(model.inl(), f, call_summary=_ml_summary(verified))
    ev.backedge_hooks.append(_pair_var_hook(ev, r))
    ev.run(f.body, ev.initial())
    _oblig(ev, r)
    return r


def ls1_shell(model):
    r = RuleResult('LS1s', 'shell: the concatenated plain text and its character map stay in '
                   'lock step over all parts incl. the delimiter padding (plain_tot / '
                   'charmap_tot), and every part submitted is an equal-length pair', floor=3)
    f = model.func('shell.proofreader.run_proofreader_options')
    verified = set(PAIR_FUNCS)
    ev = MLEval(model, f, call_summary=_ml_summary(verified))
    ev.run(f.body, ev.initial())
    n = 0
    for node, val, st in ev.ret_states:
        if node is None or not isinstance(val, Tup) or len(val.items) != 4:
            continue
        # (tex, plain, charmap, matches)
        a, b = val.items[1], val.items[2]
        la, lb = ev.length(a, st), ev.length(b, st)
        n += 1
        if la is not None and lb is not None and st.facts.prove_eq(la, lb):
            r.ok(node, 'returned plain text and character map have equal length (%r)' % la,
                 nontrivial=True)
        else:
            r.fail(node, 'returned plain text and character map may differ in length: %r vs %r'
                   % (la, lb))
    if n == 0:
        raise AnalysisError('anchor vanished: 4-tuple result of run_proofreader_options')
    _oblig(ev, r)
    for lid, inv in ev.invariants.items():
        for t in inv:
            if t.startswith('len('):
                r.ok_plain('loop invariant ' + t, 'inductive (Houdini)', nontrivial=True)
    return r


def ls1w(model):
    r = RuleResult('LS1w', 'command line: what is written to standard output is the plain text '
                   'itself (no transformation that could change its length), and the --nums file '
                   'gets exactly one line per entry of the position list', floor=2)
    f = model.func('tex2txt.write_output')
    writes = [n for n in ast.walk(f.node) if isinstance(n, ast.Call) and isinstance(n.func, ast.Attribute)
              and n.func.attr == 'write']
    if len(writes) < 2:
        raise AnalysisError('anchor vanished: the two writes of write_output')
    tpar = f.params[0]
    # text write: argument is text_get_txt(text) / text[0] unmodified
    text_w = [w for w in writes if not any(isinstance(p, ast.For) for p in _ancestors(w))]
    for w in text_w:
        a = w.args[0]
        ok = (isinstance(a, ast.Call) and T.call_name(a) == 'text_get_txt' and unparse(a.args[0]) == tpar) or \
            (isinstance(a, ast.Subscript) and unparse(a.value) == tpar and T.is_const(a.slice, 0))
        if ok:
            r.ok(w, 'the text is written unmodified', nontrivial=True)
        else:
            r.fail(w, 'the text written to standard output is transformed (%s): its length no '
                   'longer equals the number of lines of the --nums file' % unparse(a)[:60],
                   witness='a text containing the characters the transformation removes / adds')
    loops = [n for n in ast.walk(f.node) if isinstance(n, ast.For)]
    for lp in loops:
        it = lp.iter
        ok_iter = (isinstance(it, ast.Call) and T.call_name(it) == 'text_get_num') or \
            (isinstance(it, ast.Subscript) and T.is_const(it.slice, 1))
        ws = [w for w in writes if lp in _ancestors(w)]
        uncond = [w for w in ws if w._parent in lp.body or (isinstance(w._parent, ast.Expr) and w._parent in lp.body)]
        if ok_iter and len(ws) == 1 and len(uncond) == 1 and not any(
                isinstance(x, (ast.Continue, ast.Break)) for x in ast.walk(lp)):
            arg = ws[0].args[0]
            nl = any(isinstance(x, ast.Constant) and isinstance(x.value, str) and x.value.endswith('\n')
                     and x.value.count('\n') == 1 for x in ast.walk(arg))
            if nl:
                r.ok(lp, 'one unconditional write of one line per position entry', nontrivial=True)
            else:
                r.fail(ws[0], 'a position is written without its line end')
        else:
            r.fail(lp, 'the --nums loop does not write exactly one line per entry of the position list')
    return r


def _ancestors(n):
    out = []
    p = getattr(n, '_parent', None)
    while p is not None:
        out.append(p)
        p = getattr(p, '_parent', None)
    return out
