"""Driver: runs the rules serving one property on the current working tree of the
repository, prints findings, writes the evidence file.  Exit codes (DESIGN.md 1.3):
0 all obligations discharged (known findings excepted), 1 VIOLATION, 2 ANALYSIS-ERROR."""
import argparse
import os
import sys
import time
import traceback

from .model import Model, AnalysisError
from . import report


def run_property(prop, tier, seed, model=None, quiet=False, write=True):
    from .props import PROPS
    if prop not in PROPS:
        raise AnalysisError('no check for property ' + prop)
    spec = PROPS[prop]
    t0 = time.time()
    if model is None:
        model = Model()
    results = []
    broken = []     # rules that could not be evaluated (vanished anchor, vacuous instance count)
    for rule in spec['rules']:
        try:
            # a rule is a pure function of the model: when several properties are evaluated on one
            # model (self-test, seed tools) its result is computed once
            cache = model.__dict__.setdefault('_rule_cache', {})
            if rule not in cache:
                try:
                    cache[rule] = rule(model)
                except AnalysisError as e:
                    cache[rule] = e
                except RecursionError:
                    cache[rule] = AnalysisError('the analysis did not terminate (recursion limit)')
                except Exception as e:      # a construct the rule was not written for: analysis broken, not a verdict
                    import traceback
                    tb = traceback.extract_tb(e.__traceback__)[-1]
                    cache[rule] = AnalysisError('internal error of the rule: %s: %s (%s:%d)' % (
                        type(e).__name__, e, tb.filename.rsplit('/', 1)[-1], tb.lineno))
            res = cache[rule]
            if isinstance(res, AnalysisError):
                raise res
            if not isinstance(res, (list, tuple)):
                res = [res]
            for r in res:
                r.check_floor()
                results.append(r)
        except AnalysisError as e:
            broken.append('%s: %s' % (getattr(rule, '__name__', '?'), e))
    known = [k for k in report.load_known() if k.get('property') == prop]
    known_keys = {k['key']: k for k in known if k.get('status') == 'known'}
    viol = []
    lines = []
    seen = set()
    for r in results:
        for f in r.findings:
            if f.key() in seen:
                continue
            seen.add(f.key())
            if f.key() in known_keys:
                lines.append('KNOWN-FINDING: property=%s %s (%s)' % (
                    prop, known_keys[f.key()].get('what', f.msg), f.key()))
            else:
                viol.append(f)
    wall = time.time() - t0
    if write:
        report.write_evidence(prop, tier, seed, results, wall, len(viol),
                              spec.get('assumptions', []), spec['explanation'],
                              len(model.mods), len(model.funcs))
    for n, f in enumerate(viol):
        path = report.write_replay(prop, n, f) if write else '-'
        lines.append('VIOLATION property=%s replay=%s' % (prop, path))
        lines.append('  ' + f.text())
    if not quiet:
        inst = sum(r.instances for r in results)
        print('%s [%s]: %d rule(s), %d obligation(s), %d violation(s), %d known, %d undecided, %.2fs'
              % (prop, tier, len(results), inst, len(viol),
                 len(lines) - 2 * len(viol), sum(len(r.undecided) for r in results), wall))
        for r in results:
            print('  rule %-4s %3d instance(s) %s' % (r.rule, r.instances,
                                                    'FAIL' if r.findings else 'ok'))
        for ln in lines:
            print(ln)
        for b in broken:
            print('ANALYSIS-ERROR property=%s rule %s' % (prop, b))
    if broken and not viol:
        # nothing this run reports can be believed as a pass: fail closed (exit 2); a violation
        # found by another rule is still a violation
        raise AnalysisError('; '.join(broken))
    return viol, results


def _add_selftest_to_evidence(prop, stats, wall):
    import json
    p = os.path.join(report.VERIF, 'evidence', prop + '.json')
    try:
        ev = json.load(open(p))
    except Exception:
        return
    ev['coverage']['selftest'] = stats
    ev['coverage']['explanation'] += (
        ' Thorough tier: the checker itself was run on %d scratch variant(s) of the current tree '
        '(%d firing: one rule instance broken, the named rule must report it; %d neutral: '
        'behaviour-preserving edit, every rule must stay silent; %d skipped because their '
        'anchor text is absent).' % (stats.get('variants', 0), stats.get('firing', 0),
                                     stats.get('neutral', 0), stats.get('skipped', 0)))
    ev['wall_s'] = round(ev.get('wall_s', 0) + wall, 3)
    with open(p, 'w') as f:
        json.dump(ev, f, indent=1, ensure_ascii=False)
        f.write('\n')


def main(argv):
    ap = argparse.ArgumentParser(prog='check')
    ap.add_argument('prop')
    ap.add_argument('--tier', default=os.environ.get('VERIF_TIER') or 'quick',
                    choices=['quick', 'thorough'])
    ap.add_argument('--replay')
    a = ap.parse_args(argv)
    # a check that does not terminate is a broken check: fail closed
    import signal

    def _timeout(signum, frame):
        print('ANALYSIS-ERROR property=%s the analysis did not terminate within its time limit' % a.prop)
        sys.stdout.flush()
        os._exit(2)
    try:
        signal.signal(signal.SIGALRM, _timeout)
        signal.alarm(int(os.environ.get('VERIF_TIMEOUT', '1800')))
    except (ValueError, OSError):
        pass
    try:
        seed = int(os.environ.get('VERIF_SEED', '0') or 0)
    except ValueError:
        seed = 0
    try:
        if a.replay:
            import json
            with open(a.replay) as f:
                print(json.dumps(json.load(f), indent=1))
        viol, results = run_property(a.prop, a.tier, seed)
        if viol:
            return 1
        if a.tier == 'thorough':
            # the checker is tested both ways on scratch variants of the current tree
            # (only meaningful when the tree itself is clean)
            from . import selftest
            t0 = time.time()
            st = selftest.run(a.prop, seed)
            _add_selftest_to_evidence(a.prop, selftest.LAST, time.time() - t0)
            if st:
                print('ANALYSIS-ERROR self-test of the checker failed: ' + '; '.join(st[:5]))
                return 2
        return 0
    except AnalysisError as e:
        print('ANALYSIS-ERROR property=%s %s' % (a.prop, e))
        return 2
    except Exception:
        traceback.print_exc()
        print('ANALYSIS-ERROR property=%s internal error in the checker' % a.prop)
        return 2
