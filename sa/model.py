"""Component A/B of DESIGN.md: loader, program model, name and callee resolution.

Everything is derived from the source files below $VERIF_REPO (default /repo) on
every run; nothing is imported or executed.
"""
import ast
import os
import sys

REPO = os.environ.get('VERIF_REPO', '/repo')


class AnalysisError(Exception):
    """The checker cannot do its job (vanished anchor, vacuous rule, ...)."""


def _target_root(t):
    while isinstance(t, (ast.Attribute, ast.Subscript, ast.Starred)):
        t = t.value
    return t.id if isinstance(t, ast.Name) else None


class _Explode(ast.NodeTransformer):
    """`a, b = x, y` -> `a = x; b = y` where no right-hand side can observe an earlier target of the
    same statement (normal form for all rules; positions are those of the original statement)"""
    def visit_Assign(self, st):
        self.generic_visit(st)
        if not (len(st.targets) == 1 and isinstance(st.targets[0], ast.Tuple) and isinstance(st.value, ast.Tuple)
                and len(st.targets[0].elts) == len(st.value.elts)
                and not any(isinstance(x, ast.Starred) for x in st.targets[0].elts + st.value.elts)):
            return st
        tg = st.targets[0].elts
        for k, v in enumerate(st.value.elts):
            loaded = {x.id for x in ast.walk(v) if isinstance(x, ast.Name)}
            texts = {ast.unparse(x) for x in ast.walk(v) if isinstance(x, (ast.Attribute, ast.Subscript))}
            for t in tg[:k]:
                root = _target_root(t)
                if root is None:
                    return st
                if isinstance(t, ast.Name):
                    if root in loaded:
                        return st
                elif isinstance(t, ast.Attribute) and root == 'self':
                    if ast.unparse(t) in texts or any(x.startswith(ast.unparse(t)) for x in texts):
                        return st
                    if any(isinstance(x, ast.Call) for x in ast.walk(v)):
                        return st       # a call may read the attribute
                elif root in loaded:
                    return st
        out = []
        for t, v in zip(tg, st.value.elts):
            a = ast.Assign(targets=[t], value=v, type_comment=None)
            ast.copy_location(a, st)
            out.append(a)
        return out


class _FoldConstIf(ast.NodeTransformer):
    """`if c: v = K1` / `else: v = K2` (one plain name, two constants) -> `v = K1 if c else K2`"""
    def visit_If(self, n):
        self.generic_visit(n)
        if len(n.body) == 1 and len(n.orelse) == 1 and all(
                isinstance(s, ast.Assign) and len(s.targets) == 1 and isinstance(s.targets[0], ast.Name)
                and isinstance(s.value, ast.Constant) for s in (n.body[0], n.orelse[0])) \
                and n.body[0].targets[0].id == n.orelse[0].targets[0].id \
                and not any(isinstance(x, ast.NamedExpr) for x in ast.walk(n.test)):
            a = ast.Assign(targets=[n.body[0].targets[0]],
                           value=ast.IfExp(test=n.test, body=n.body[0].value, orelse=n.orelse[0].value),
                           type_comment=None)
            ast.copy_location(a, n)
            return a
        return n


def _explode_parallel(tree):
    tree = ast.fix_missing_locations(_Explode().visit(tree))
    _unflag_returns(tree)
    tree = _FoldConstIf().visit(tree)
    return ast.fix_missing_locations(tree)


def _unflag_returns(tree):
    """normal form: the result flag of a decision chain is turned back into returns:
           F = None
           if c1: ...; F = e1
           elif c2: ...; F = e2
           if F is not None: return R(F)
       becomes `if c1: ...; return R(e1)  elif c2: ...; return R(e2)` when every e_i is certainly not None (a call
       of a class, or a name x that an earlier branch of the chain excluded with `not x` / `x is None`) and F
       occurs nowhere else in the function."""
    import copy as _copy
    for fn in ast.walk(tree):
        if not isinstance(fn, (ast.FunctionDef, ast.AsyncFunctionDef)):
            continue
        for holder in ast.walk(fn):
            for fld in ('body', 'orelse', 'finalbody'):
                stmts = getattr(holder, fld, None)
                if not isinstance(stmts, list):
                    continue
                i = 0
                while i + 2 < len(stmts) + 0 and i + 2 <= len(stmts) - 1:
                    s0, s1, s2 = stmts[i], stmts[i + 1], stmts[i + 2]
                    ok = isinstance(s0, ast.Assign) and len(s0.targets) == 1 and isinstance(s0.targets[0], ast.Name) \
                        and isinstance(s0.value, ast.Constant) and s0.value.value is None and isinstance(s1, ast.If) \
                        and isinstance(s2, ast.If) and not s2.orelse and len(s2.body) == 1 \
                        and isinstance(s2.body[0], ast.Return) and s2.body[0].value is not None
                    if not ok:
                        i += 1
                        continue
                    F = s0.targets[0].id
                    t = s2.test
                    if not (isinstance(t, ast.Compare) and len(t.ops) == 1 and isinstance(t.ops[0], ast.IsNot)
                            and isinstance(t.left, ast.Name) and t.left.id == F
                            and isinstance(t.comparators[0], ast.Constant) and t.comparators[0].value is None):
                        i += 1
                        continue
                    # the chain
                    branches = []
                    node = s1
                    excluded = set()
                    good = True
                    while True:
                        branches.append((node, set(excluded)))
                        tt = node.test
                        if isinstance(tt, ast.UnaryOp) and isinstance(tt.op, ast.Not) and isinstance(tt.operand, ast.Name):
                            excluded.add(tt.operand.id)
                        elif isinstance(tt, ast.Compare) and len(tt.ops) == 1 and isinstance(tt.ops[0], ast.Is) \
                                and isinstance(tt.left, ast.Name) and isinstance(tt.comparators[0], ast.Constant) \
                                and tt.comparators[0].value is None:
                            excluded.add(tt.left.id)
                        if len(node.orelse) == 1 and isinstance(node.orelse[0], ast.If):
                            node = node.orelse[0]
                            continue
                        if node.orelse:
                            good = False
                        break
                    uses_elsewhere = 0
                    for x in ast.walk(fn):
                        if isinstance(x, ast.Name) and x.id == F:
                            uses_elsewhere += 1
                    n_here = 1 + 1 + sum(1 for x in ast.walk(s2.body[0]) if isinstance(x, ast.Name) and x.id == F)
                    vals = []
                    for node, excl in branches:
                        last = node.body[-1] if node.body else None
                        if not (isinstance(last, ast.Assign) and len(last.targets) == 1 and isinstance(last.targets[0], ast.Name)
                                and last.targets[0].id == F):
                            good = False
                            break
                        if any(isinstance(x, ast.Name) and x.id == F for st_ in node.body[:-1] for x in ast.walk(st_)):
                            good = False
                            break
                        e = last.value
                        nonnull = False
                        if isinstance(e, ast.Call):
                            nm = e.func.attr if isinstance(e.func, ast.Attribute) else getattr(e.func, 'id', '')
                            nonnull = nm[:1].isupper()
                        elif isinstance(e, ast.Name):
                            nonnull = e.id in excl
                        if not nonnull:
                            good = False
                            break
                        vals.append((node, e))
                        n_here += 1
                    if not good or uses_elsewhere != n_here:
                        i += 1
                        continue
                    for node, e in vals:
                        ret = _copy.deepcopy(s2.body[0])

                        class _R(ast.NodeTransformer):
                            def visit_Name(self, n):
                                return _copy.deepcopy(e) if n.id == F else n
                        ret = _R().visit(ret)
                        ast.copy_location(ret, node.body[-1])
                        node.body[-1] = ret
                    del stmts[i + 2]
                    del stmts[i]
                    i += 1


class Mod:
    def __init__(self, rel, src):
        self.rel = rel                                  # yalafi/parser.py
        parts = rel[:-3].split('/')
        self.is_pkg = parts[-1] == '__init__'
        if self.is_pkg:
            parts = parts[:-1]
        self.name = '.'.join(parts)                     # yalafi.parser
        self.short = '.'.join(parts[1:]) or 'yalafi'    # parser
        self.package = self.name if self.is_pkg else '.'.join(parts[:-1])
        self.src = src
        self.tree = _explode_parallel(ast.parse(src, filename=rel))
        self.imports = {}       # local name -> ('mod', dotted) | ('sym', dotted, name)
        self.funcs = {}         # name -> Func (module level)
        self.classes = {}       # name -> Cls
        self.globals = {}       # name -> [value nodes assigned at module level]
        self.injected = {}      # name -> attr: 'global name; name = vars.attr' in init(vars)


class Cls:
    def __init__(self, mod, node):
        self.mod = mod
        self.node = node
        self.name = node.name
        self.qname = mod.short + '.' + node.name
        self.bases = node.bases
        self.methods = {}


class Func:
    def __init__(self, mod, node, qname, cls=None, outer=None):
        self.mod = mod
        self.node = node
        self.qname = qname
        self.name = getattr(node, 'name', '<lambda>')
        self.cls = cls
        self.outer = outer
        a = node.args
        self.params = [x.arg for x in a.posonlyargs + a.args]
        if a.vararg:
            self.params.append(a.vararg.arg)
        self.params += [x.arg for x in a.kwonlyargs]
        if a.kwarg:
            self.params.append(a.kwarg.arg)
        self.nested = {}        # name -> Func
        self._locals = None

    @property
    def body(self):
        b = self.node.body
        return b if isinstance(b, list) else [ast.Return(value=b)]

    def local_names(self):
        """names bound in this function's own scope (params, assignments, defs)"""
        if self._locals is None:
            names = set(self.params)
            declared_global = set()
            for n in iter_scope(self.node):
                if isinstance(n, ast.Name) and isinstance(n.ctx, (ast.Store, ast.Del)):
                    names.add(n.id)
                elif isinstance(n, (ast.FunctionDef, ast.ClassDef)) and n is not self.node:
                    names.add(n.name)
                elif isinstance(n, (ast.Global, ast.Nonlocal)):
                    declared_global.update(n.names)
                elif isinstance(n, ast.ExceptHandler) and n.name:
                    names.add(n.name)
                elif isinstance(n, (ast.Import, ast.ImportFrom)):
                    for al in n.names:
                        names.add((al.asname or al.name).split('.')[0])
            self._locals = names - declared_global
        return self._locals

    def __repr__(self):
        return '<Func %s>' % self.qname


def iter_scope(fnode):
    """all nodes of a function's own scope: does not descend into nested
    function/lambda/class bodies, but does into comprehensions (their targets are
    reported too; they never clash with outer names in this code base)."""
    body = fnode.body if isinstance(fnode.body, list) else [fnode.body]
    stack = list(reversed(body))
    while stack:
        n = stack.pop()
        yield n
        if isinstance(n, (ast.FunctionDef, ast.AsyncFunctionDef, ast.Lambda, ast.ClassDef)):
            continue
        stack.extend(reversed(list(ast.iter_child_nodes(n))))


def iter_scope_with_nested_heads(fnode):
    return iter_scope(fnode)


def _scope_walk(fnode):
    """nodes of the body of fnode without nested function / class bodies"""
    stack = list(reversed(fnode.body))
    while stack:
        n = stack.pop()
        yield n
        if isinstance(n, (ast.FunctionDef, ast.AsyncFunctionDef, ast.Lambda, ast.ClassDef)):
            continue
        stack.extend(reversed(list(ast.iter_child_nodes(n))))


def _inline_tail_helpers(mods):
    """normal form: a helper function (module level, or a method called through self) that has exactly one
    call site in the package, and that call site is `return helper(args)` with plain positional arguments,
    is spliced into its caller: the return statement is replaced by `params = args` followed by a copy of the
    helper's body (tail position: nothing of the caller runs afterwards).  The helper itself stays in the
    model.  Undoes the refactoring "move the end of a function into a helper"."""
    import copy as _copy
    # call counts by bare name over the whole package
    counts = {}
    for m in mods.values():
        for n in ast.walk(m.tree):
            if isinstance(n, ast.Call):
                nm = n.func.id if isinstance(n.func, ast.Name) else (n.func.attr if isinstance(n.func, ast.Attribute) else None)
                if nm:
                    counts[nm] = counts.get(nm, 0) + 1
            elif isinstance(n, (ast.Name, ast.Attribute)) and not isinstance(getattr(n, 'ctx', None), ast.Store):
                pass
    # references that are not calls (function used as a value) forbid inlining
    valrefs = {}
    for m in mods.values():
        callfuncs = {id(n.func) for n in ast.walk(m.tree) if isinstance(n, ast.Call)}
        for n in ast.walk(m.tree):
            if isinstance(n, ast.Name) and isinstance(n.ctx, ast.Load) and id(n) not in callfuncs:
                valrefs[n.id] = valrefs.get(n.id, 0) + 1
            elif isinstance(n, ast.Attribute) and isinstance(n.ctx, ast.Load) and id(n) not in callfuncs:
                valrefs[n.attr] = valrefs.get(n.attr, 0) + 1

    def eligible(g):
        if g.decorator_list or g.args.vararg or g.args.kwarg or g.args.kwonlyargs or g.args.defaults \
                or getattr(g.args, 'posonlyargs', None):
            return False
        for n in _scope_walk(g):
            if isinstance(n, (ast.Yield, ast.YieldFrom, ast.Global, ast.Nonlocal, ast.Await)):
                return False
        return counts.get(g.name, 0) == 1 and not valrefs.get(g.name)

    for m in mods.values():
        top = {st.name: st for st in m.tree.body if isinstance(st, ast.FunctionDef)}
        containers = [(None, m.tree.body)]
        for st in m.tree.body:
            if isinstance(st, ast.ClassDef):
                containers.append((st, st.body))
        for cls, body in containers:
            meths = {st.name: st for st in body if isinstance(st, ast.FunctionDef)} if cls is not None else {}
            for f in [st for st in body if isinstance(st, ast.FunctionDef)]:
                for _ in range(3):      # helpers of helpers, bounded
                    if not _inline_once(f, top, meths, eligible, _copy):
                        break


def _inline_once(f, top, meths, eligible, _copy):
    captured = set()
    for n in ast.walk(f):
        if n is not f and isinstance(n, (ast.FunctionDef, ast.Lambda)):
            captured |= {x.id for x in ast.walk(n) if isinstance(x, ast.Name)}

    def splice(stmts):
        for i, st in enumerate(stmts):
            if isinstance(st, ast.Return) and isinstance(st.value, ast.Call) and not st.value.keywords \
                    and not any(isinstance(a, ast.Starred) for a in st.value.args):
                c = st.value
                g = None
                skip_self = False
                if isinstance(c.func, ast.Name) and c.func.id in top and top[c.func.id] is not f:
                    g = top[c.func.id]
                elif isinstance(c.func, ast.Attribute) and isinstance(c.func.value, ast.Name) \
                        and c.func.value.id == 'self' and c.func.attr in meths and meths[c.func.attr] is not f \
                        and f.args.args and f.args.args[0].arg == 'self':
                    g = meths[c.func.attr]
                    skip_self = True
                if g is not None and eligible(g):
                    params = [a.arg for a in g.args.args]
                    if skip_self:
                        if not params or params[0] != 'self':
                            g = None
                        else:
                            params = params[1:]
                    if g is not None and len(params) == len(c.args):
                        glocals = {p_ for p_, a_ in zip(params, c.args)
                                   if not (isinstance(a_, ast.Name) and a_.id == p_)} | {
                            x.id for x in _scope_walk(g) if isinstance(x, ast.Name) and isinstance(x.ctx, ast.Store)}
                        if not (glocals & captured):
                            new = []
                            pairs = [(p_, a_) for p_, a_ in zip(params, c.args)
                                     if not (isinstance(a_, ast.Name) and a_.id == p_)]
                            if pairs:
                                if len(pairs) == 1:
                                    asg = ast.Assign(targets=[ast.Name(id=pairs[0][0], ctx=ast.Store())],
                                                     value=pairs[0][1], type_comment=None)
                                else:
                                    asg = ast.Assign(
                                        targets=[ast.Tuple(elts=[ast.Name(id=p_, ctx=ast.Store()) for p_, _a in pairs],
                                                           ctx=ast.Store())],
                                        value=ast.Tuple(elts=[a_ for _p, a_ in pairs], ctx=ast.Load()), type_comment=None)
                                ast.copy_location(asg, st)
                                ast.fix_missing_locations(asg)
                                new.append(asg)
                            body = [_copy.deepcopy(x) for x in g.body]
                            if body and isinstance(body[0], ast.Expr) and isinstance(body[0].value, ast.Constant) \
                                    and isinstance(body[0].value.value, str):
                                body = body[1:]
                            new += body
                            if not new or not isinstance(new[-1], ast.Return):
                                rn = ast.Return(value=ast.Constant(value=None))
                                ast.copy_location(rn, st)
                                ast.fix_missing_locations(rn)
                                new.append(rn)
                            stmts[i:i + 1] = new
                            return True
            # a procedure call as a statement: `self.helper(args)` / `helper(args)` where the helper has no
            # return statement: its body is spliced in place if none of its local names occurs in the caller
            if isinstance(st, ast.Expr) and isinstance(st.value, ast.Call) and not st.value.keywords \
                    and not any(isinstance(a, ast.Starred) for a in st.value.args):
                c = st.value
                g = None
                skip_self = False
                if isinstance(c.func, ast.Name) and c.func.id in top and top[c.func.id] is not f:
                    g = top[c.func.id]
                elif isinstance(c.func, ast.Attribute) and isinstance(c.func.value, ast.Name) \
                        and c.func.value.id == 'self' and c.func.attr in meths and meths[c.func.attr] is not f \
                        and f.args.args and f.args.args[0].arg == 'self':
                    g = meths[c.func.attr]
                    skip_self = True
                if g is not None and eligible(g) and not any(isinstance(x, ast.Return) for x in _scope_walk(g)):
                    params = [a.arg for a in g.args.args]
                    if skip_self and params and params[0] == 'self':
                        params = params[1:]
                    elif skip_self:
                        params = None
                    if params is not None and len(params) == len(c.args):
                        pairs = [(p_, a_) for p_, a_ in zip(params, c.args)
                                 if not (isinstance(a_, ast.Name) and a_.id == p_)]
                        glocals = {p_ for p_, _a in pairs} | {
                            x.id for x in _scope_walk(g) if isinstance(x, ast.Name) and isinstance(x.ctx, ast.Store)}
                        fnames = {x.id for x in ast.walk(f) if isinstance(x, ast.Name)} | {a.arg for a in f.args.args}
                        # local names of the helper that also occur in the caller are renamed in the copy
                        ren = {nm: '%s__%s' % (nm, g.name) for nm in glocals & fnames}
                        if not any(v in fnames for v in ren.values()):
                            new = []
                            for p_, a_ in pairs:
                                asg = ast.Assign(targets=[ast.Name(id=ren.get(p_, p_), ctx=ast.Store())], value=a_,
                                                 type_comment=None)
                                ast.copy_location(asg, st)
                                ast.fix_missing_locations(asg)
                                new.append(asg)
                            body = [_copy.deepcopy(x) for x in g.body]
                            if ren:
                                for b_ in body:
                                    for x in ast.walk(b_):
                                        if isinstance(x, ast.Name) and x.id in ren:
                                            x.id = ren[x.id]
                            if body and isinstance(body[0], ast.Expr) and isinstance(body[0].value, ast.Constant) \
                                    and isinstance(body[0].value.value, str):
                                body = body[1:]
                            stmts[i:i + 1] = new + body
                            return True
            for fld in ('body', 'orelse', 'finalbody'):
                sub = getattr(st, fld, None)
                if isinstance(sub, list) and not isinstance(st, (ast.FunctionDef, ast.ClassDef, ast.AsyncFunctionDef)):
                    if splice(sub):
                        return True
            for h in getattr(st, 'handlers', []) or []:
                if splice(h.body):
                    return True
        return False
    return splice(f.body)


class Model:
    def __init__(self, repo=None, inline=False):
        self.repo = repo or REPO
        self._inline = inline
        self._inl = None
        self.mods = {}          # dotted name -> Mod
        self.by_short = {}
        self.funcs = {}         # qname -> Func
        self.classes = {}       # qname -> Cls
        self.func_of_node = {}  # id(def node) -> Func
        self._load()
        if inline:
            _inline_tail_helpers(self.mods)
        self._index()

    def inl(self):
        """the same tree with single-use tail helpers spliced into their callers (see
        _inline_tail_helpers): for rules that are anchored in one function and must see its whole tail"""
        if self._inline:
            return self
        if self._inl is None:
            self._inl = Model(self.repo, inline=True)
        return self._inl

    # ------------------------------------------------------------------ load
    def _load(self):
        root = os.path.join(self.repo, 'yalafi')
        if not os.path.isdir(root):
            raise AnalysisError('no package directory ' + root)
        for dp, dns, fns in os.walk(root):
            dns.sort()
            if '__pycache__' in dns:
                dns.remove('__pycache__')
            for fn in sorted(fns):
                if not fn.endswith('.py'):
                    continue
                path = os.path.join(dp, fn)
                rel = os.path.relpath(path, self.repo)
                with open(path, encoding='utf-8', newline=None) as f:
                    src = f.read()
                try:
                    m = Mod(rel, src)
                except SyntaxError as e:
                    raise AnalysisError('cannot parse %s: %s' % (rel, e))
                self.mods[m.name] = m
                self.by_short[m.short] = m

    def _index(self):
        for m in self.mods.values():
            for n in ast.walk(m.tree):
                for c in ast.iter_child_nodes(n):
                    c._parent = n
            m.tree._parent = None
            self._index_imports(m)
            for st in m.tree.body:
                self._index_stmt(m, st, None, None, m.short)
            for st in ast.walk(m.tree):
                pass
        # node -> enclosing function
        for f in self.funcs.values():
            for n in iter_scope(f.node):
                n._fn = f
            f.node._fn_self = f
        for m in self.mods.values():
            for n in ast.walk(m.tree):
                n._mod = m
                if not hasattr(n, '_fn'):
                    n._fn = None
        # lambdas as functions
        for m in self.mods.values():
            for n in ast.walk(m.tree):
                if isinstance(n, ast.Lambda):
                    outer = n._fn
                    base = outer.qname if outer else m.short
                    q = '%s.<lambda@%d>' % (base, n.lineno)
                    f = Func(m, n, q, cls=outer.cls if outer else None, outer=outer)
                    self.funcs[q] = f
                    self.func_of_node[id(n)] = f
                    for c in iter_scope(n):
                        c._fn = f

    def _index_imports(self, m):
        for n in ast.walk(m.tree):
            if isinstance(n, ast.Import):
                for al in n.names:
                    local = al.asname or al.name.split('.')[0]
                    target = al.name if al.asname else al.name.split('.')[0]
                    m.imports.setdefault(local, ('mod', target))
            elif isinstance(n, ast.ImportFrom):
                if n.level:
                    pk = m.package.split('.')
                    pk = pk[:len(pk) - (n.level - 1)]
                    base = '.'.join(pk + ([n.module] if n.module else []))
                else:
                    base = n.module
                for al in n.names:
                    local = al.asname or al.name
                    full = base + '.' + al.name
                    if full in self.mods:
                        m.imports.setdefault(local, ('mod', full))
                    else:
                        m.imports.setdefault(local, ('sym', base, al.name))

    def _index_stmt(self, m, st, cls, outer, prefix):
        if (isinstance(st, ast.FunctionDef) and st.name == 'init' and cls is None
                and outer is None and len(st.args.args) == 1):
            p = st.args.args[0].arg
            for n in st.body:
                if (isinstance(n, ast.Assign) and len(n.targets) == 1
                        and isinstance(n.targets[0], ast.Name)
                        and isinstance(n.value, ast.Attribute)
                        and isinstance(n.value.value, ast.Name)
                        and n.value.value.id == p):
                    m.injected[n.targets[0].id] = n.value.attr
        if isinstance(st, (ast.FunctionDef, ast.AsyncFunctionDef)):
            q = prefix + '.' + st.name
            f = Func(m, st, q, cls=cls, outer=outer)
            self.funcs[q] = f
            self.func_of_node[id(st)] = f
            if outer is not None:
                outer.nested[st.name] = f
            elif cls is not None:
                cls.methods[st.name] = f
            else:
                m.funcs[st.name] = f
            for n in iter_scope(st):
                if isinstance(n, (ast.FunctionDef, ast.AsyncFunctionDef)):
                    self._index_stmt(m, n, cls, f, q)
                elif isinstance(n, ast.ClassDef):
                    self._index_stmt(m, n, None, f, q)
        elif isinstance(st, ast.ClassDef):
            c = Cls(m, st)
            c.qname = prefix + '.' + st.name
            self.classes[c.qname] = c
            if outer is None and cls is None:
                m.classes[st.name] = c
            for s2 in st.body:
                self._index_stmt(m, s2, c, None, c.qname)
        elif outer is None and cls is None:
            if isinstance(st, ast.Assign):
                for t in st.targets:
                    if isinstance(t, ast.Name):
                        m.globals.setdefault(t.id, []).append(st.value)
            elif isinstance(st, (ast.If, ast.Try, ast.For, ast.While, ast.With)):
                for s2 in ast.iter_child_nodes(st):
                    if isinstance(s2, ast.stmt):
                        self._index_stmt(m, s2, cls, outer, prefix)
                    elif isinstance(s2, ast.ExceptHandler):
                        for s3 in s2.body:
                            self._index_stmt(m, s3, cls, outer, prefix)

    # --------------------------------------------------------------- lookups
    def mod(self, short):
        if short not in self.by_short:
            raise AnalysisError('anchor vanished: module yalafi/%s.py' % short.replace('.', '/'))
        return self.by_short[short]

    def func(self, qname):
        if qname not in self.funcs:
            raise AnalysisError('anchor vanished: function ' + qname)
        return self.funcs[qname]

    def has_func(self, qname):
        return qname in self.funcs

    def cls(self, qname):
        if qname not in self.classes:
            raise AnalysisError('anchor vanished: class ' + qname)
        return self.classes[qname]

    def all_funcs(self):
        return list(self.funcs.values())

    # ------------------------------------------------------- class hierarchy
    def class_of_expr(self, mod, fn, e):
        """Cls named by expression e (a Name or module-alias Attribute), or None"""
        r = self.resolve_symbol(mod, fn, e)
        if r and r[0] == 'class':
            return r[1]
        return None

    def is_subclass(self, cls, base_qname):
        seen = set()
        todo = [cls]
        while todo:
            c = todo.pop()
            if c.qname == base_qname:
                return True
            if c.qname in seen:
                continue
            seen.add(c.qname)
            for b in c.bases:
                bc = self.class_of_expr(c.mod, None, b)
                if bc:
                    todo.append(bc)
        return False

    def token_classes(self):
        """closed set of token classes: subclasses of defs.TextToken"""
        return {q: c for q, c in self.classes.items()
                if self.is_subclass(c, 'defs.TextToken')}

    # ------------------------------------------------------------ resolution
    def _shadowed(self, fn, name):
        f = fn
        while f is not None:
            if name in f.local_names():
                return f
            f = f.outer
        return None

    def resolve_symbol(self, mod, fn, e):
        """what a Name / dotted Attribute denotes statically:
           ('mod', Mod) | ('extmod', dotted) | ('class', Cls) | ('func', Func) |
           ('ext', dotted) | ('global', Mod, name) | None (local / unknown)"""
        if isinstance(e, ast.Name):
            name = e.id
            sh = self._shadowed(fn, name)
            if sh is not None:
                if name in sh.nested:
                    return ('func', sh.nested[name])
                # a class defined inside the function?
                q = sh.qname + '.' + name
                if q in self.classes:
                    return ('class', self.classes[q])
                return None
            return self._module_level(mod, name)
        if isinstance(e, ast.Attribute):
            base = self.resolve_symbol(mod, fn, e.value)
            if not base:
                return None
            if base[0] == 'mod':
                return self._module_level(base[1], e.attr, via_attr=True)
            if base[0] in ('extmod', 'ext'):
                return ('ext', base[1] + '.' + e.attr)
            if base[0] == 'class':
                c = base[1]
                m = self.find_method(c, e.attr)
                if m:
                    return ('func', m)
            return None
        return None

    def _module_level(self, mod, name, via_attr=False):
        if name in mod.funcs:
            return ('func', mod.funcs[name])
        if name in mod.classes:
            return ('class', mod.classes[name])
        if name in mod.imports:
            imp = mod.imports[name]
            if imp[0] == 'mod':
                if imp[1] in self.mods:
                    return ('mod', self.mods[imp[1]])
                return ('extmod', imp[1])
            base, sym = imp[1], imp[2]
            if base in self.mods:
                return self._module_level(self.mods[base], sym, via_attr=True)
            return ('ext', base + '.' + sym)
        if name in mod.globals:
            return ('global', mod, name)
        if name in mod.injected and not via_attr:
            # shell modules receive their globals from shell.py through init(vars):
            # vars.<attr> = <name> at module level of shell/shell.py
            sh = self.by_short.get('shell.shell')
            if sh is not None:
                for n in sh.tree.body:
                    if (isinstance(n, ast.Assign) and len(n.targets) == 1
                            and isinstance(n.targets[0], ast.Attribute)
                            and n.targets[0].attr == mod.injected[name]
                            and isinstance(n.value, ast.Name)):
                        return self._module_level(sh, n.value.id, via_attr=True)
        sub = mod.name + '.' + name
        if via_attr and sub in self.mods:
            return ('mod', self.mods[sub])
        return None

    def find_method(self, cls, name):
        seen = set()
        todo = [cls]
        while todo:
            c = todo.pop(0)
            if c.qname in seen:
                continue
            seen.add(c.qname)
            if name in c.methods:
                return c.methods[name]
            for b in c.bases:
                bc = self.class_of_expr(c.mod, None, b)
                if bc:
                    todo.append(bc)
        return None

    _method_index = None
    #: attribute names that are (also) methods of builtin / stdlib objects and are
    #: therefore never resolved through the unique-method table
    BUILTIN_METHODS = frozenset('''append extend insert pop remove sort clear update
        setdefault copy get keys values items join split strip startswith endswith
        find rfind count replace format lower upper isalpha isspace isdecimal
        isalnum islower read write close flush readlines encode decode group start
        end groups match search sub index add splitlines'''.split())

    def unique_method(self, name):
        if self._method_index is None:
            idx = {}
            for c in self.classes.values():
                for mn, f in c.methods.items():
                    idx.setdefault(mn, []).append(f)
            Model._method_index_cache = idx
            self._method_index = idx
        if name in self.BUILTIN_METHODS or name.startswith('__'):
            return None
        fs = self._method_index.get(name, [])
        if len(fs) == 1:
            return fs[0]
        return None

    def resolve_call(self, call):
        """callee of a Call node: ('func', Func) | ('class', Cls) | ('ext', dotted) |
        ('builtin', name) | None"""
        mod, fn = call._mod, call._fn
        f = call.func
        r = self.resolve_symbol(mod, fn, f)
        if r and r[0] in ('func', 'class', 'ext'):
            return r
        if isinstance(f, ast.Name):
            if self._shadowed(fn, f.id) is None and f.id not in mod.globals \
                    and f.id not in mod.imports:
                return ('builtin', f.id)
            return None
        if isinstance(f, ast.Attribute):
            if isinstance(f.value, ast.Name) and f.value.id == 'self' and fn is not None:
                g = fn
                while g is not None and g.cls is None:
                    g = g.outer
                if g is not None and g.cls is not None:
                    m = self.find_method(g.cls, f.attr)
                    if m:
                        return ('func', m)
            if isinstance(f.value, ast.Call) and isinstance(f.value.func, ast.Name) \
                    and f.value.func.id == 'super' and fn is not None and fn.cls:
                for b in fn.cls.bases:
                    bc = self.class_of_expr(fn.mod, None, b)
                    if bc:
                        m = self.find_method(bc, f.attr)
                        if m:
                            return ('func', m)
            m = self.unique_method(f.attr)
            if m:
                return ('func', m)
        return None


def dispatch_targets(model, call, resolve_local):
    """functions a call `f(...)` may reach when f is a local variable bound to
    `{k: func, ...}.get(x)` / `{...}[x]` (dispatch table of functions or bound methods);
    [] if the call is not of that form or an entry does not resolve"""
    f = call.func

    def as_dict(x):
        if isinstance(x, ast.Dict):
            return x
        if isinstance(x, ast.Name):
            vs = resolve_local(model, x)
            if len(vs) == 1 and isinstance(vs[0], ast.Dict):
                return vs[0]
        return None
    if isinstance(f, ast.Subscript) and not isinstance(f.slice, ast.Slice):
        vals = [f]          # table[key](...)
    elif isinstance(f, ast.Name):
        vals = resolve_local(model, f)
    else:
        return []
    out = []
    if not vals:
        return []
    for v in vals:
        d = None
        if isinstance(v, ast.Call) and isinstance(v.func, ast.Attribute) and v.func.attr == 'get' \
                and as_dict(v.func.value) is not None:
            d = as_dict(v.func.value)
            if len(v.args) > 1 and not (isinstance(v.args[1], ast.Constant) and v.args[1].value is None):
                return []
        elif isinstance(v, ast.Subscript) and as_dict(v.value) is not None:
            d = as_dict(v.value)
        if d is None:
            return []
        for e in d.values:
            r = None
            if isinstance(e, ast.Attribute) and isinstance(e.value, ast.Name) and e.value.id == 'self':
                fn = call._fn
                g = fn
                while g is not None and g.cls is None:
                    g = g.outer
                if g is not None:
                    m = model.find_method(g.cls, e.attr)
                    r = ('func', m) if m else None
            else:
                r = model.resolve_symbol(call._mod, call._fn, e)
            if not (r and r[0] == 'func'):
                return []
            out.append(r[1])
    return out


def unparse(n):
    return ast.unparse(n)


def enclosing_stmt(n):
    while n is not None and not isinstance(n, ast.stmt):
        n = getattr(n, '_parent', None)
    return n


def stmt_text(n):
    """normalised text of the statement containing n, first line only for compound
    statements - the stable part of a finding key (never a line number)"""
    s = enclosing_stmt(n)
    if s is None:
        return unparse(n)
    if isinstance(s, (ast.If, ast.While)):
        return type(s).__name__.lower() + ' ' + unparse(s.test)
    if isinstance(s, ast.For):
        return 'for %s in %s' % (unparse(s.target), unparse(s.iter))
    if isinstance(s, (ast.FunctionDef, ast.ClassDef)):
        return 'def ' + s.name
    if isinstance(s, (ast.Try, ast.With)):
        return type(s).__name__.lower()
    return unparse(s)[:240]
