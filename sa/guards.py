"""Guard facts that dominate a node (component C: 'extraction of guard facts').

facts(node) returns a list of (expr, truth) such that expr evaluated to truth on every
path reaching node, as far as the enclosing structure shows it:
  * the node is in the body / orelse of an If / While / IfExp / comprehension-if,
  * the node is a later operand of `a and b` / `a or b`,
  * an earlier sibling statement `if c: <always exits>` (then c is false afterwards).
A fact is dropped if a variable it mentions is re-bound between the test and the node."""
import ast

from .flow import always_exits


def _names(e):
    return {n.id for n in ast.walk(e) if isinstance(n, ast.Name)}


def _stores_between(stmts, names):
    """does any statement in stmts re-bind one of names (or mutate by aug-assign)?"""
    for s in stmts:
        for n in ast.walk(s):
            if isinstance(n, ast.Name) and isinstance(n.ctx, (ast.Store, ast.Del)) and n.id in names:
                return True
    return False


def split_fact(e, truth, out):
    """decompose a condition into atomic facts"""
    if isinstance(e, ast.UnaryOp) and isinstance(e.op, ast.Not):
        split_fact(e.operand, not truth, out)
    elif isinstance(e, ast.BoolOp) and isinstance(e.op, ast.And) and truth:
        for v in e.values:
            split_fact(v, True, out)
    elif isinstance(e, ast.BoolOp) and isinstance(e.op, ast.Or) and not truth:
        for v in e.values:
            split_fact(v, False, out)
    elif isinstance(e, ast.NamedExpr) and isinstance(e.target, ast.Name):
        # (x := value) has the truth value of x afterwards
        out.append((e, truth))
        nm = ast.Name(id=e.target.id, ctx=ast.Load())
        ast.copy_location(nm, e)
        out.append((nm, truth))
    else:
        out.append((e, truth))


def facts(node):
    out = []
    child = node
    p = getattr(node, '_parent', None)
    while p is not None:
        if isinstance(p, (ast.If, ast.While)):
            if child in p.body:
                idx = p.body.index(child)
                if not _stores_between(p.body[:idx], _names(p.test)):
                    split_fact(p.test, True, out)
            elif child in p.orelse and isinstance(p, ast.If):
                idx = p.orelse.index(child)
                if not _stores_between(p.orelse[:idx], _names(p.test)):
                    split_fact(p.test, False, out)
        elif isinstance(p, ast.IfExp):
            if child is p.body:
                split_fact(p.test, True, out)
            elif child is p.orelse:
                split_fact(p.test, False, out)
        elif isinstance(p, ast.BoolOp):
            idx = p.values.index(child) if child in p.values else -1
            for v in p.values[:max(idx, 0)]:
                split_fact(v, isinstance(p.op, ast.And), out)
        elif isinstance(p, ast.comprehension):
            if child in p.ifs:
                for v in p.ifs[:p.ifs.index(child)]:
                    split_fact(v, True, out)
        elif isinstance(p, (ast.ListComp, ast.SetComp, ast.GeneratorExp, ast.DictComp)):
            if child is getattr(p, 'elt', None) or child is getattr(p, 'key', None) \
                    or child is getattr(p, 'value', None):
                for g in p.generators:
                    for v in g.ifs:
                        split_fact(v, True, out)
        # earlier siblings that exit
        for field in ('body', 'orelse', 'finalbody'):
            seq = getattr(p, field, None)
            if isinstance(seq, list) and child in seq:
                idx = seq.index(child)
                for k, s in enumerate(seq[:idx]):
                    if isinstance(s, ast.If) and always_exits(s.body) and not s.orelse:
                        if not _stores_between(seq[k + 1:idx], _names(s.test)):
                            split_fact(s.test, False, out)
                    elif isinstance(s, ast.If) and s.orelse and always_exits(s.orelse) \
                            and not always_exits(s.body):
                        if not _stores_between(s.body + seq[k + 1:idx], _names(s.test)):
                            split_fact(s.test, True, out)
        if isinstance(p, (ast.FunctionDef, ast.Lambda, ast.AsyncFunctionDef)):
            break
        child = p
        p = getattr(p, '_parent', None)
    return out


def has_fact(node, pred):
    """pred(expr, truth) -> bool"""
    return any(pred(e, t) for e, t in facts(node))


def fact_texts(node):
    return [('' if t else 'not ') + ast.unparse(e) for e, t in facts(node)]
